----------------------------------- MODULE Imsc -----------------------------------
(* XML-level semantics of a TTML2 / IMSC 1.1 text-profile document.  Property C04.

   Written from TTML2 (sec. 12 timing, sec. 10.4.4 style resolution, sec. 11 layout) and IMSC 1.1, not
   from the implementation.  The document is an abstract XML tree: a node table in document order
   (preorder: every child has a larger index than its parent).

   node  [kind, parent, kids, tc, b, d, e, reg, rid, srefs, attrs, nested, space, lang, tag, sprop, sval]
     kind   "body" "div" "p" "span" "br" "text" "set" "region" "ruby" "rb" "rt" "rp" "rbc" "rtc"
     parent 0 for the roots (the body and every region: their time container is the document, a par)
     tc     "par" | "seq"  (timeContainer)
     b,d,e  begin / dur / end in integer ticks of the per-case base P.D, NONE when not specified
     reg    value of the region attribute ("" = not specified); rid = xml:id of a region node
     srefs  the style attribute (sequence of ids); attrs = inline style attributes, <<name, value>> pairs
     nested (region only) the attribute lists of the nested style children, in document order; nrefs their style attributes
     space, lang  xml:space / xml:lang ("" = not specified);  tag = the text of a text node
     sprop, sval  (set only) the animated property and its value
   styling S : sequence of [id, refs, attrs] (style elements), initials I : sequence of <<name, value>>.

   Style values are opaque tokens.  Times: see Ticks.  INF is the indefinite duration.             *)
EXTENDS Integers, Sequences, FiniteSets, TLC

INF  == 1000000000            \* indefinite; every finite tick value of a case stays far below
NONE == -1

Min2(a, b) == IF a < b THEN a ELSE b
Max2(a, b) == IF a > b THEN a ELSE b
Plus(a, b) == IF a >= INF \/ b >= INF THEN INF ELSE a + b

-----------------------------------------------------------------------------
(* 1. Time expressions (TTML2 sec. 12.3.1, parameters sec. 7.2).
      P = [D, fr, mn, md, tr]: D ticks of the case base per second; fr = ttp:frameRate (0: not specified, default 30);
      mn md = ttp:frameRateMultiplier "mn md" (1 1 when not specified); tr = ttp:tickRate (0: not specified).
      An expression is a record [syntax, h, m, s, f, num, den]:
        clock        hh:mm:ss(.fraction)   fraction of a second = num/den
        clockFrames  hh:mm:ss:ff
        h m s ms f t offset-time           value = num/den in the metric
      The case base D is chosen by the harness so that every quotient below is exact (Exact).          *)

FrNominal(P) == IF P.fr = 0 THEN 30 ELSE P.fr
\* effective frame rate = FrNominal * mn / md  frames per second
TicksPerFrame(P) == (P.D * P.md) \div (FrNominal(P) * P.mn)
\* ttp:tickRate defaults to the effective frame rate (x subFrameRate = 1) when ttp:frameRate is specified, else to 1
TicksPerTick(P) == IF P.tr # 0 THEN P.D \div P.tr
                   ELSE IF P.fr # 0 THEN TicksPerFrame(P)
                   ELSE P.D

Ticks(x, P) ==
  CASE x.syntax = "clock"       -> ((x.h * 60 + x.m) * 60 + x.s) * P.D + (x.num * P.D) \div x.den
    [] x.syntax = "clockFrames" -> ((x.h * 60 + x.m) * 60 + x.s) * P.D + x.f * TicksPerFrame(P)
    [] x.syntax = "h"  -> x.num * ((3600 * P.D) \div x.den)
    [] x.syntax = "m"  -> x.num * ((60 * P.D) \div x.den)
    [] x.syntax = "s"  -> x.num * (P.D \div x.den)
    [] x.syntax = "ms" -> x.num * (P.D \div (1000 * x.den))
    [] x.syntax = "f"  -> (x.num * TicksPerFrame(P)) \div x.den
    [] x.syntax = "t"  -> (x.num * TicksPerTick(P)) \div x.den
    [] x.syntax = "none" -> NONE

Exact(x, P) ==
  CASE x.syntax = "clock"       -> (x.num * P.D) % x.den = 0
    [] x.syntax = "clockFrames" -> (P.D * P.md) % (FrNominal(P) * P.mn) = 0 /\ x.f < FrNominal(P)
    [] x.syntax = "h"  -> (3600 * P.D) % x.den = 0
    [] x.syntax = "m"  -> (60 * P.D) % x.den = 0
    [] x.syntax = "s"  -> P.D % x.den = 0
    [] x.syntax = "ms" -> P.D % (1000 * x.den) = 0
    [] x.syntax = "f"  -> (P.D * P.md) % (FrNominal(P) * P.mn) = 0 /\ (x.num * TicksPerFrame(P)) % x.den = 0
    [] x.syntax = "t"  -> (IF P.tr # 0 THEN P.D % P.tr = 0 ELSE TRUE) /\ (x.num * TicksPerTick(P)) % x.den = 0
    [] x.syntax = "none" -> TRUE

-----------------------------------------------------------------------------
(* 2. Temporal resolution (TTML2 sec. 12.2: begin, dur, end, timeContainer; SMIL 3.0 par / seq).
      For a node k with parent x, in the coordinate space of x (offsets from the begin of x):
        syncbase  sb = 0 in a par, the active end of the previous sibling in a seq (0 for the first child)
        begin     B  = sb + begin attribute (0 when not specified)
        active end   = min(B + dur, sb + end) | B + dur | sb + end | B + implicit duration, never before B
      Implicit duration: text (anonymous span), br, set: indefinite in a par, zero in a seq;
        region: indefinite;  par container: the last active end of its children (endsync "all"), zero when it
        has none;  seq container: the active end of its last child.
      The absolute interval of a node is clipped by the interval of its parent.                          *)

LeafKinds == {"text", "br", "set"}

LocalEnd(nd, sb, B, idur) ==
  CASE nd.d # NONE /\ nd.e # NONE -> Min2(Plus(B, nd.d), Plus(sb, nd.e))
    [] nd.d # NONE                -> Plus(B, nd.d)
    [] nd.e # NONE                -> Plus(sb, nd.e)
    [] OTHER                      -> Plus(B, idur)

\* acc = [bl, el, du : 1..n -> ticks, neg : BOOLEAN]; bl/el local begin and active end, du implicit duration
RECURSIVE TimeKids(_, _, _, _, _)
TimeKids(N, acc, x, i, sync) ==
  IF i > Len(N[x].kids) THEN acc
  ELSE LET k   == N[x].kids[i]
           sb  == IF N[x].tc = "seq" THEN sync ELSE 0
           B   == Plus(sb, IF N[k].b = NONE THEN 0 ELSE N[k].b)
           raw == LocalEnd(N[k], sb, B, acc.du[k])
           E   == Max2(B, raw)
       IN  TimeKids(N, [acc EXCEPT !.bl[k] = B, !.el[k] = E,
                                   !.neg = @ \/ raw < B], x, i + 1, E)

MaxEnd(N, acc, x) ==
  LET ks == N[x].kids
      RECURSIVE M(_)
      M(i) == IF i > Len(ks) THEN 0 ELSE Max2(acc.el[ks[i]], M(i + 1))
  IN  M(1)

ContainerDur(N, acc, x) ==
  IF N[x].kids = <<>> THEN 0
  ELSE IF N[x].tc = "seq" THEN acc.el[N[x].kids[Len(N[x].kids)]]
  ELSE MaxEnd(N, acc, x)

RECURSIVE Up(_, _, _)
Up(N, acc, x) ==
  IF x = 0 THEN acc
  ELSE LET a1 == TimeKids(N, acc, x, 1, 0)
           du == IF N[x].kind \in LeafKinds
                 THEN (IF N[x].parent # 0 /\ N[N[x].parent].tc = "seq" THEN 0 ELSE INF)
                 ELSE IF N[x].kind = "region" THEN INF
                 ELSE ContainerDur(N, a1, x)
       IN  Up(N, [a1 EXCEPT !.du[x] = du], x - 1)

RECURSIVE Down(_, _, _, _)
Down(N, loc, ab, x) ==
  IF x > Len(N) THEN ab
  ELSE LET p  == N[x].parent
           lb == IF p # 0 THEN loc.bl[x] ELSE (IF N[x].b = NONE THEN 0 ELSE N[x].b)
           le == IF p # 0 THEN loc.el[x] ELSE Max2(lb, LocalEnd(N[x], 0, lb, loc.du[x]))
           B  == IF p = 0 THEN lb ELSE Plus(ab.b[p], lb)
           E  == IF p = 0 THEN le ELSE Min2(Plus(ab.b[p], le), ab.e[p])
       IN  Down(N, loc, [b |-> [ab.b EXCEPT ![x] = B], e |-> [ab.e EXCEPT ![x] = E]], x + 1)

\* absolute intervals [b, e) of all nodes, and whether some element has an end that resolves before its begin
Intervals(N) ==
  LET n    == Len(N)
      z    == [x \in 1..n |-> 0]
      loc  == Up(N, [bl |-> z, el |-> z, du |-> z, neg |-> FALSE], n)
      ab   == Down(N, loc, [b |-> z, e |-> z], 1)
  IN  [b |-> ab.b, e |-> ab.e, neg |-> loc.neg, du |-> loc.du, bl |-> loc.bl, el |-> loc.el]

Active(iv, x, t) == iv.b[x] <= t /\ t < iv.e[x]

\* Domain of the timing clauses (DESIGN.md sec. 8, modelling decisions): TTML2 does not say whether set / br children
\* take part in a sequence, nor what an element whose end resolves before its begin contributes to the implicit duration
\* of its container (and hence to whatever follows that container in a sequence).
TimingInDomain(N, iv) ==
  /\ ~iv.neg
  /\ \A x \in 1..Len(N) : (N[x].kind \in {"set", "br"} /\ N[x].parent # 0) => N[N[x].parent].tc = "par"

-----------------------------------------------------------------------------
(* 3. Region association (TTML2 sec. 11.3.1.3) for a text leaf: the region attributes on the path from the body;
      no region defined: the default region "" ; none specified or two different ones: no region.              *)

RegionNodes(N) == {x \in 1..Len(N) : N[x].kind = "region"}

RECURSIVE PathUp(_, _)
PathUp(N, x) == IF x = 0 THEN <<>> ELSE Append(PathUp(N, N[x].parent), x)      \* root first, x last

RegionOf(N, x) ==
  LET path == PathUp(N, x)
      refs == {N[path[i]].reg : i \in 1..Len(path)} \ {""}
  IN  IF RegionNodes(N) = {} THEN ""
      ELSE IF Cardinality(refs) = 1 THEN (CHOOSE r \in refs : TRUE) ELSE "none"

RegionNode(N, rid) == IF \E x \in RegionNodes(N) : N[x].rid = rid
                      THEN CHOOSE x \in RegionNodes(N) : N[x].rid = rid ELSE 0

\* a text leaf is shown at t iff it is active (hence all its ancestors are) and its region exists and is active
XmlShown(N, iv, x, t) ==
  /\ N[x].kind = "text"
  /\ Active(iv, x, t)
  /\ LET r == RegionOf(N, x)
     IN  \/ r = "" /\ RegionNodes(N) = {}
         \/ r # "none" /\ r # "" /\ RegionNode(N, r) # 0 /\ Active(iv, RegionNode(N, r), t)
\* white space alone presents nothing under xml:space="default" (the design-level family has no xml:space) - its TIMING
\* counts; under xml:space="preserve" it is presented like any other text (Trace_Imsc: TVisible)
XmlVisible(N, iv, x, t) == XmlShown(N, iv, x, t) /\ N[x].tag # " "

-----------------------------------------------------------------------------
(* 4. Styling (TTML2 sec. 10.4.4.2 specified style set): referential styling in the order of the style attribute
      (a later reference overrides an earlier one), each referenced style contributing its own chained references
      first (depth first; a reference to a missing id or back into the chain is ignored), then nested styling
      (region only, later children override), then inline attributes.  Attribute maps are sequences of pairs.   *)

Has(m, p) == \E i \in 1..Len(m) : m[i][1] = p
Get(m, p) == IF Has(m, p) THEN m[CHOOSE i \in 1..Len(m) : m[i][1] = p][2] ELSE ""
Over(lo, hi) == hi \o SelectSeq(lo, LAMBDA pr : ~Has(hi, pr[1]))           \* hi wins

StyleIndex(S, id) == IF \E i \in 1..Len(S) : S[i].id = id THEN CHOOSE i \in 1..Len(S) : S[i].id = id ELSE 0

RECURSIVE MergeRefs(_, _, _, _, _)
MergeRefs(S, refs, i, onpath, acc) ==
  IF i > Len(refs) THEN acc
  ELSE LET j == StyleIndex(S, refs[i])
       IN  IF j = 0 \/ j \in onpath THEN MergeRefs(S, refs, i + 1, onpath, acc)
           ELSE LET own == Over(MergeRefs(S, S[j].refs, 1, onpath \cup {j}, <<>>), S[j].attrs)
                IN  MergeRefs(S, refs, i + 1, onpath, Over(acc, own))

\* TTML2 10.4.1.? : "a loop in a sequence of chained style references must be considered an error" - what a style on a
\* loop contributes is not defined, so style tokens are only demanded of documents whose style graph has no loop
RECURSIVE Reaches(_, _, _, _)
Reaches(S, from, to, seen) ==
  \E k \in 1..Len(S[from].refs) :
     LET j == StyleIndex(S, S[from].refs[k])
     IN  j # 0 /\ (j = to \/ (j \notin seen /\ Reaches(S, j, to, seen \cup {j})))
StyleGraphAcyclic(S) == \A i \in 1..Len(S) : ~Reaches(S, i, i, {i})

\* nested style children in document order; each contributes its own (chained) references below its own attributes
RECURSIVE FoldNested(_, _, _, _, _)
FoldNested(S, nested, nrefs, i, acc) ==
  IF i > Len(nested) THEN acc
  ELSE FoldNested(S, nested, nrefs, i + 1, Over(acc, Over(MergeRefs(S, nrefs[i], 1, {}, <<>>), nested[i])))

Specified(S, nd) ==
  Over(Over(MergeRefs(S, nd.srefs, 1, {}, <<>>),
            IF nd.kind = "region" THEN FoldNested(S, nd.nested, nd.nrefs, 1, <<>>) ELSE <<>>),
       nd.attrs)

(* Computed token of an observed property at time t (TTML2 sec. 10.4.4.3/4): an active set (the last in document order),
   else the specified value, else for an inheritable property the parent's (the body inherits from its region),
   else the initial value (overridden by an initial element).                                                    *)
Inherited == {"color", "fontStyle", "fontWeight", "visibility", "wrapOption", "textAlign"}
Default(p) == CASE p = "color" -> "white" [] p = "backgroundColor" -> "transparent" [] p = "fontStyle" -> "normal"
                [] p = "fontWeight" -> "normal" [] p = "visibility" -> "visible" [] p = "wrapOption" -> "wrap"
                [] p = "textAlign" -> "start" [] p = "displayAlign" -> "before" [] p = "showBackground" -> "always"
                [] p = "opacity" -> "1"
                [] OTHER -> "?"
InitialOf(I, p) == IF Has(I, p) THEN Get(I, p) ELSE Default(p)

ActiveSet(N, iv, x, p, t) ==
  LET ks == SelectSeq(N[x].kids, LAMBDA k : N[k].kind = "set" /\ N[k].sprop = p /\ Active(iv, k, t))
  IN  IF ks = <<>> THEN "" ELSE N[ks[Len(ks)]].sval

RECURSIVE Computed(_, _, _, _, _, _, _, _)
Computed(N, I, spec, iv, x, p, t, rnode) ==
  LET a == ActiveSet(N, iv, x, p, t)
      up == IF N[x].parent # 0 THEN N[x].parent ELSE IF N[x].kind = "region" THEN 0 ELSE rnode
  IN  IF a # "" THEN a
      ELSE IF Has(spec[x], p) THEN Get(spec[x], p)
      ELSE IF p \in Inherited /\ up # 0 THEN Computed(N, I, spec, iv, up, p, t, rnode)
      ELSE InitialOf(I, p)

ObsProps(kind) ==
  CASE kind \in {"body", "div"} -> <<"backgroundColor", "visibility">>
    [] kind = "p"      -> <<"backgroundColor", "visibility", "textAlign">>
    [] kind = "span"   -> <<"color", "backgroundColor", "fontStyle", "fontWeight", "visibility", "wrapOption">>
    [] kind = "region" -> <<"backgroundColor", "displayAlign", "showBackground", "visibility", "opacity">>
    [] OTHER -> <<>>

Tokens(N, I, spec, iv, x, t, rnode) ==
  LET ps == ObsProps(N[x].kind) IN [i \in 1..Len(ps) |-> Computed(N, I, spec, iv, x, ps[i], t, rnode)]

\* mixed content: a text node whose parent is not a span is wrapped in an anonymous span (TTML2 sec. 8.1.6), which
\* specifies nothing: inheritable properties come from the parent, the others take their initial value
AnonTokens(N, I, spec, iv, par, t, rnode) ==
  LET ps == ObsProps("span")
  IN  [i \in 1..Len(ps) |-> IF ps[i] \in Inherited THEN Computed(N, I, spec, iv, par, ps[i], t, rnode)
                            ELSE InitialOf(I, ps[i])]

NeedsAnon(N, x) == N[N[x].parent].kind # "span"

\* element kinds from the body down to the text node, as the canonical model names them
LeafPath(N, x) ==
  LET up == PathUp(N, N[x].parent)
      ks == [i \in 1..Len(up) |-> N[up[i]].kind]
  IN  (IF NeedsAnon(N, x) THEN Append(ks, "span") ELSE ks) \o <<"text">>

LeafChain(N, I, spec, iv, x, t) ==
  LET up == PathUp(N, N[x].parent)
      rn == RegionNode(N, RegionOf(N, x))
      ts == [i \in 1..Len(up) |-> Tokens(N, I, spec, iv, up[i], t, rn)]
  IN  IF NeedsAnon(N, x) THEN Append(ts, AnonTokens(N, I, spec, iv, N[x].parent, t, rn)) ELSE ts

\* xml:space / xml:lang: the nearest specification on the path, else the value on tt (TTML2 sec. 8.2.? / XML 1.0 2.10, 2.12)
RECURSIVE NearestAttr(_, _, _, _)
NearestAttr(N, x, field, dflt) ==
  IF x = 0 THEN dflt
  ELSE LET v == IF field = "space" THEN N[x].space ELSE N[x].lang
       \* ("-" stands for an attribute that IS specified with the empty string, xml:lang="": it resets the language to none)
       IN  IF v = "-" THEN "" ELSE IF v # "" THEN v ELSE NearestAttr(N, N[x].parent, field, dflt)

-----------------------------------------------------------------------------
(* 5. Design-level machine: Init picks a document of a bounded family, the action sweeps a time cursor over it.
      Shapes[s] is a skeleton (sequence of [kind, parent, vary]); every node with vary = TRUE takes one of the
      Choices <<b, d, e, tc>> (ticks; cursor and attribute values are in half ticks, so the cursor also visits
      the midpoints).  TLC checks the properties below on every state: they are statements about the *specification*. *)

CONSTANTS Shapes,      \* sequence of skeletons
          Choices,     \* set of <<b, d, e, tc>>
          TMax         \* cursor bound (half ticks)

VARIABLES sh, asg, cur, gone
vars == <<sh, asg, cur, gone>>

VaryIdx(s) == SelectSeq([i \in 1..Len(Shapes[s]) |-> i], LAMBDA i : Shapes[s][i].vary)

KidsOf(skel, x) == SelectSeq([i \in 1..Len(skel) |-> i], LAMBDA i : skel[i].parent = x)

Pos(seq, v) == CHOOSE i \in 1..Len(seq) : seq[i] = v

BuildDoc(s, a) ==
  LET skel == Shapes[s]
      vi   == VaryIdx(s)
      ch(x) == IF skel[x].vary THEN a[Pos(vi, x)] ELSE <<NONE, NONE, NONE, "par">>
      dbl(v) == IF v = NONE THEN NONE ELSE 2 * v
  IN  [x \in 1..Len(skel) |->
         [kind |-> skel[x].kind, parent |-> skel[x].parent, kids |-> KidsOf(skel, x), tc |-> ch(x)[4],
          b |-> dbl(ch(x)[1]), d |-> dbl(ch(x)[2]), e |-> dbl(ch(x)[3]), reg |-> "", rid |-> "", srefs |-> <<>>,
          attrs |-> <<>>, nested |-> <<>>, nrefs |-> <<>>, space |-> "", lang |-> "", tag |-> "", sprop |-> "color", sval |-> "red"]]

Doc == BuildDoc(sh, asg)
VisibleNow(N, iv, tt) == {x \in 1..Len(N) : XmlVisible(N, iv, x, tt)}
\* the cursor stops one half tick after the last finite boundary of the document
Horizon(N, iv) ==
  LET fin == {iv.b[x] : x \in 1..Len(N)} \cup {iv.e[x] : x \in 1..Len(N)}
      f   == {v \in fin : v < INF}
  IN  IF f = {} THEN 1 ELSE Min2(TMax, 1 + CHOOSE v \in f : \A w \in f : w <= v)

Init == /\ sh \in 1..Len(Shapes)
        /\ asg \in [1..Len(VaryIdx(sh)) -> Choices]
        /\ cur = 0
        /\ gone = {}

Sweep == LET N == Doc  iv == Intervals(N)
         IN  /\ cur < Horizon(N, iv)
             /\ cur' = cur + 1
             /\ gone' = gone \cup (VisibleNow(N, iv, cur) \ VisibleNow(N, iv, cur + 1))
             /\ UNCHANGED <<sh, asg>>

Next == Sweep
Spec == Init /\ [][Next]_vars
NoNext == FALSE /\ UNCHANGED vars          \* enumeration of the family only (replay into the implementation)

\* a child is never active outside its parent's interval
ChildWithinParent(N, iv) ==
  \A x \in 1..Len(N) : (N[x].parent # 0 /\ Active(iv, x, cur)) => Active(iv, N[x].parent, cur)
\* in a seq at most one child is active at a time, and every child begins no earlier than its predecessor ends
SeqExclusive(N, iv) ==
  \A x \in 1..Len(N) : N[x].tc = "seq" =>
        /\ Cardinality({i \in 1..Len(N[x].kids) : Active(iv, N[x].kids[i], cur)}) <= 1
        /\ \A i \in 1..(Len(N[x].kids) - 1) : iv.bl[N[x].kids[i + 1]] >= iv.el[N[x].kids[i]]
\* text of a sequential container is never shown (zero implicit duration)
SeqTextNeverShown(N, iv) ==
  \A x \in 1..Len(N) : (N[x].kind = "text" /\ N[N[x].parent].tc = "seq") => ~XmlVisible(N, iv, x, cur)
\* what has disappeared never comes back: the presence of a leaf is one interval
OneInterval(N, iv) == gone \cap VisibleNow(N, iv, cur) = {}
\* an explicit dur bounds the element: it is never active dur after its begin; an active end never precedes the begin
ExplicitBounds(N, iv) ==
  \A x \in 1..Len(N) : /\ (N[x].d # NONE /\ Active(iv, x, cur)) => cur < iv.b[x] + N[x].d
                        /\ iv.el[x] >= iv.bl[x]
\* a par container without dur / end lasts exactly until its last child ends (endsync all)
ParCoversChildren(N, iv) ==
  \A x \in 1..Len(N) : (N[x].tc = "par" /\ N[x].kind \notin LeafKinds /\ N[x].d = NONE /\ N[x].e = NONE /\ N[x].kids # <<>>
                          /\ N[x].parent # 0)
                         => \A i \in 1..Len(N[x].kids) : iv.el[x] >= Plus(iv.bl[x], iv.el[N[x].kids[i]])

\* one invariant so that the intervals of the document are computed once per state; WhichFails names the culprit
DesignInv ==
  LET N == Doc  iv == Intervals(N)
  IN  /\ ChildWithinParent(N, iv) /\ SeqExclusive(N, iv) /\ SeqTextNeverShown(N, iv) /\ OneInterval(N, iv)
      /\ ExplicitBounds(N, iv) /\ ParCoversChildren(N, iv)
WhichFails ==
  LET N == Doc  iv == Intervals(N)
  IN  <<ChildWithinParent(N, iv), SeqExclusive(N, iv), SeqTextNeverShown(N, iv), OneInterval(N, iv), ExplicitBounds(N, iv),
        ParCoversChildren(N, iv)>>
=============================================================================
