--------------------------------- MODULE ImscWrite ---------------------------------
(* IMSC write -> read round trip: what may happen to a time, and when two documents present identically.
   Property C05.  Written from the property text and the writer's documented configuration (README: time_format
   frames | clock_time | clock_time_with_frames; fps required for the two frame syntaxes; default frames when fps is
   given, clock_time otherwise), not from the code.

   Times are integer ticks of a per-case base D (ticks per second) in which a millisecond and a frame are whole.
   A writer configuration is cfg = [fmt, fn, fd]: fmt in {"none", "clock_time", "frames", "clock_time_with_frames"},
   fps = fn/fd, fn = 0 when no fps is configured.

   The quantisation is a RELATION: the property fixes no rounding direction.
     Q(u, t, t2)  ==  t2 is a whole number of units  and  |t2 - t| < one unit
   where the unit u is a millisecond for clock time and a frame for the two frame syntaxes.  Consequences that TLC
   checks on this module: representable times have exactly one image (themselves); every time has an image; a writer
   that never swaps two times (monotone) can always continue monotonically.                                        *)
EXTENDS Integers, Sequences, FiniteSets, TLC

Formats == {"none", "clock_time", "frames", "clock_time_with_frames"}

\* configurations the writer documents as rejected (ValueError, nothing is written)
Rejected(cfg) ==
  \/ cfg.fmt \in {"frames", "clock_time_with_frames"} /\ cfg.fn = 0
  \/ cfg.fmt = "clock_time_with_frames" /\ cfg.fd # 1           \* hh:mm:ss:ff needs an integer frame rate

\* the syntax in which times are written
Syntax(cfg) ==
  CASE cfg.fmt = "clock_time" -> "clock"
    [] cfg.fmt = "frames" -> "frames"
    [] cfg.fmt = "clock_time_with_frames" -> "clockFrames"
    [] OTHER -> IF cfg.fn = 0 THEN "clock" ELSE "frames"

\* the quantum in ticks of base D (D is chosen so that the division is exact)
Unit(cfg, D) == IF Syntax(cfg) = "clock" THEN D \div 1000 ELSE (D * cfg.fd) \div cfg.fn
UnitExact(cfg, D) == IF Syntax(cfg) = "clock" THEN D % 1000 = 0 ELSE (D * cfg.fd) % cfg.fn = 0

Q(u, t, t2) == t2 % u = 0 /\ t2 - t < u /\ t - t2 < u /\ t2 >= 0
Representable(u, t) == t % u = 0

\* a family of time pairs never swaps: TA[i] <= TA[j] => TB[i] <= TB[j]
NeverSwaps(TA, TB) == \A i, j \in 1..Len(TA) : TA[i] <= TA[j] => TB[i] <= TB[j]

-----------------------------------------------------------------------------
(* Design-level machine.  Init picks a configuration; a rejected configuration is an explicit outcome in which
   nothing is ever written.  Otherwise a model time t sweeps the base ticks and the writer+reader pair maps it to
   some image q admitted by Q, never going backwards (it never swaps two times).                                   *)

CONSTANTS Configs,      \* set of [fmt, fn, fd, D]
          NUnits        \* sweep this many units

VARIABLES cfg, t, q, out
vars == <<cfg, t, q, out>>

U == Unit(cfg, cfg.D)

Init == /\ cfg \in Configs
        /\ t = 0 /\ q = 0
        /\ out = IF Rejected(cfg) THEN "reject" ELSE "written"

RejectConfig == /\ out = "reject" /\ UNCHANGED vars            \* nothing is written, ever

\* the images Q admits for t are among the two neighbouring unit multiples (CandsComplete checks this by brute force)
Cands(u, tt) == {x \in {(tt \div u) * u, (tt \div u) * u + u} : Q(u, tt, x)}

WriteRead == /\ out = "written"
             /\ t < NUnits * U
             /\ t' = t + 1
             /\ q' \in {x \in Cands(U, t + 1) : x >= q}
             /\ UNCHANGED <<cfg, out>>

Next == WriteRead \/ RejectConfig
Spec == Init /\ [][Next]_vars

ConfigWellFormed == out = "written" => UnitExact(cfg, cfg.D) /\ U > 0
ImageAdmitted    == out = "written" => Q(U, t, q)
IdentityOnRepresentable == (out = "written" /\ Representable(U, t)) => q = t
\* whatever monotone choices were made so far, a monotone continuation exists (floor, ceiling and nearest all qualify)
CanContinue      == (out = "written" /\ t < NUnits * U) => \E x \in Cands(U, t + 1) : x >= q
AtMostTwoImages  == out = "written" => Cardinality(Cands(U, t)) \in {1, 2}
CandsComplete    == (out = "written" /\ U <= 125) => Cands(U, t) = {x \in (t - U)..(t + U) : Q(U, t, x)}
RejectedStaysEmpty == out = "reject" => (t = 0 /\ q = 0)
Monotone == [][q' >= q]_vars
=============================================================================
