------------------------------- MODULE ImscWriteCases -------------------------------
(* Enumeration of the round-trip cases of C05 that are replayed into the implementation: every writer configuration
   of ImscWrite!Configs (time format x frame rate, including the rejected ones) x every document skeleton (element
   kinds incl. the four ruby patterns) x every class of times (frame multiples, millisecond multiples, off-grid).   *)
EXTENDS ImscWrite

CONSTANTS Skeletons, Profiles
VARIABLES sk, tp
cvars == <<cfg, t, q, out, sk, tp>>

CInit == Init /\ sk \in Skeletons /\ tp \in Profiles
CNext == FALSE /\ UNCHANGED cvars
=============================================================================
