------------------------------- MODULE IsdFilters -------------------------------
(* The ISD filters and the element/document filters of ttconv.filters, specified from what they are FOR.

   PURPOSE (filters/isd/*.py docstrings, srt/writer.py, vtt/writer.py, TTML2 sec. 11.3.1.3 "ISD" and 10.4.2 style
   resolution).  The SRT and WebVTT writers render one cue per paragraph of one region-less text flow, and
   know four text decorations.  An ISD (TTML2 intermediate synchronic document) is

        isd = sequence of regions;  region > body (0 or 1) > div* (nested) > p > inline*,
        inline = span > {text, br, span} | br | ruby containers

   in which every node carries its *computed* styles.  Four filters normalise an ISD for such a writer:

     MergeRegions     one text flow: all bodies are poured, in region order, into the body of ONE region
     MergeParagraphs  one cue per region: the paragraphs of a region become ONE paragraph, former paragraphs
                      separated by exactly one line break
     KeepSupported    only the (property, value) pairs the target can express survive
     RemoveDefaults   a pair whose value is the target's default is dropped where dropping it changes no
                      computed value (reading of the result: absent = inherited from the nearest ancestor that
                      specifies the property when the property is inherited, the default otherwise)

   and two element filters work on content documents (used by the LCD document filter):

     RemoveAnimations  no discrete animation step is left on the element (and its descendants)
     KeepSupported     on elements (same as above, optionally not recursive) and on the initial values of a document

   A style set is a function  property name -> value token.  Nothing here depends on what the tokens are.

   The module wraps the operators in a machine: Init picks an ISD (or a document) of a bounded family, every
   action applies one filter; TLC explores every order of application up to MaxDepth and checks the design
   properties after each step and, for every reachable ISD, the contract of every filter applied to it.      *)
EXTENDS Integers, Sequences, FiniteSets, TLC

CONSTANTS Mode,          \* "isd": the ISD machine;  "doc": the element / document filter machine
          MaxDepth,      \* longest sequence of filter applications
          MaxRegions,    \* family: ISDs have 1..MaxRegions regions
          BodyChoices,   \* family: which of the region layouts 1..NLayouts are used
          ChainLevel     \* family: 0 no inheritance chains, 1 few, 2 many

-----------------------------------------------------------------------------
(* Trees *)

NoS == <<>>                                                  \* the empty style set
Restrict(f, S) == [k \in S |-> f[k]]

Node(k, id, st, ch, t) == [kind |-> k, id |-> id, styles |-> st, children |-> ch, text |-> t]
Txt(t)        == Node("text", "", NoS, <<>>, t)
BrN           == Node("br", "", NoS, <<>>, "")
El(k, st, ch) == Node(k, "", st, ch, "")
Reg(id, st, ch) == Node("region", id, st, ch, "")

RECURSIVE ConcatAll(_)
ConcatAll(ss) == IF ss = <<>> THEN <<>> ELSE Head(ss) \o ConcatAll(Tail(ss))

Kids(n) == n.children
NK(n)   == Len(n.children)

\* pre-order list of the nodes of a tree, each with its depth: determines the tree
RECURSIVE Flat(_, _)
Flat(n, d) == <<[kind |-> n.kind, id |-> n.id, styles |-> n.styles, text |-> n.text, depth |-> d]>>
              \o ConcatAll([j \in 1..NK(n) |-> Flat(n.children[j], d + 1)])
FlatIsd(x) == ConcatAll([r \in 1..Len(x) |-> Flat(x[r], 0)])

Skel(fl) == [j \in 1..Len(fl) |-> [kind |-> fl[j].kind, depth |-> fl[j].depth]]
SameSkeleton(x, y) == Skel(FlatIsd(x)) = Skel(FlatIsd(y))
Ids(x) == [r \in 1..Len(x) |-> x[r].id]

\* what a viewer reads: the text runs and forced line breaks, in document order
RECURSIVE Items(_)
Items(n) == IF n.kind = "text" THEN <<n.text>>
            ELSE IF n.kind = "br" THEN <<"<br>">>
            ELSE ConcatAll([j \in 1..NK(n) |-> Items(n.children[j])])
ItemsIsd(x) == ConcatAll([r \in 1..Len(x) |-> Items(x[r])])
Texts(its)  == SelectSeq(its, LAMBDA s : s # "<br>")

-----------------------------------------------------------------------------
(* The ISD shape *)

AllowedKids(k) ==
  CASE k = "region" -> {"body"}
    [] k = "body"   -> {"div"}
    [] k = "div"    -> {"div", "p"}
    [] k = "p"      -> {"span", "br", "ruby"}
    [] k = "span"   -> {"span", "br", "text"}
    [] k = "ruby"   -> {"rb", "rt", "rp", "rbc", "rtc"}
    [] k = "rbc"    -> {"rb"}
    [] k = "rtc"    -> {"rt", "rp"}
    [] k \in {"rb", "rt", "rp"} -> {"span"}
    [] OTHER        -> {}

RECURSIVE ShapeNode(_)
ShapeNode(n) ==
  /\ \A j \in 1..NK(n) : n.children[j].kind \in AllowedKids(n.kind) /\ ShapeNode(n.children[j])
  /\ (n.kind = "region" => NK(n) <= 1)
  /\ (n.kind # "text" => n.text = "")
  /\ (n.kind # "region" => n.id = "")

ShapeOK(x) ==
  /\ \A r \in 1..Len(x) : x[r].kind = "region" /\ x[r].id # "" /\ ShapeNode(x[r])
  /\ \A r, q \in 1..Len(x) : r # q => x[r].id # x[q].id

-----------------------------------------------------------------------------
(* MergeRegions *)

HasBody(r)   == NK(r) > 0
NonEmpty(x)  == {r \in 1..Len(x) : HasBody(x[r])}

RECURSIVE JoinIds(_)
JoinIds(ids) == IF Len(ids) = 1 THEN ids[1] ELSE ids[1] \o "_" \o JoinIds(Tail(ids))

\* the divisions of all regions, in region order
Divisions(x) == ConcatAll([r \in 1..Len(x) |-> IF HasBody(x[r]) THEN x[r].children[1].children ELSE <<>>])

\* nothing to merge unless two regions hold content; the merged region is a mere container (it cannot
\* have the origin, extent, background... of several regions at once): no styles on it nor on its body
MergeRegions(x) ==
  IF Cardinality(NonEmpty(x)) <= 1 THEN x
  ELSE << Reg(JoinIds(Ids(x)), NoS, << El("body", NoS, Divisions(x)) >>) >>

-----------------------------------------------------------------------------
(* MergeParagraphs *)

RECURSIVE Paragraphs(_)            \* the paragraphs below a body or division, in document order
Paragraphs(n) == IF n.kind = "p" THEN <<n>>
                 ELSE IF n.kind \in {"body", "div"} THEN ConcatAll([j \in 1..NK(n) |-> Paragraphs(n.children[j])])
                 ELSE <<>>

\* the pairs on which all paragraphs agree (e.g. a common text alignment)
Agreed(ps) == Restrict(ps[1].styles, {k \in DOMAIN ps[1].styles :
                  \A j \in 1..Len(ps) : k \in DOMAIN ps[j].styles /\ ps[j].styles[k] = ps[1].styles[k]})

RECURSIVE JoinLines(_)             \* inline content of the paragraphs, one br between two paragraphs
JoinLines(ps) == IF Len(ps) = 1 THEN ps[1].children ELSE ps[1].children \o <<BrN>> \o JoinLines(Tail(ps))

MpRegion(r) ==
  IF ~HasBody(r) THEN r
  ELSE LET b == r.children[1]  ps == Paragraphs(b) IN
       IF Len(ps) <= 1 THEN r
       ELSE [r EXCEPT !.children = << [b EXCEPT !.children = << El("div", NoS, << El("p", Agreed(ps), JoinLines(ps)) >>) >>] >>]

MergeParagraphs(x) == [r \in 1..Len(x) |-> MpRegion(x[r])]

-----------------------------------------------------------------------------
(* KeepSupported.  sup : property -> set of supported values, the empty set meaning "every value" *)

Supports(sup, p, v) == p \in DOMAIN sup /\ (sup[p] = {} \/ v \in sup[p])
KeepStyles(st, sup) == Restrict(st, {p \in DOMAIN st : Supports(sup, p, st[p])})

RECURSIVE KeepNode(_, _, _)
KeepNode(n, sup, rec) ==
  [n EXCEPT !.styles = KeepStyles(n.styles, sup),
            !.children = IF rec THEN [j \in 1..NK(n) |-> KeepNode(n.children[j], sup, rec)] ELSE n.children]

KeepSupported(x, sup) == [r \in 1..Len(x) |-> KeepNode(x[r], sup, TRUE)]

-----------------------------------------------------------------------------
(* Computed styles and RemoveDefaults.
   defs : property -> default value of the target;  inh : the inherited properties.
   Reading of a style set in which pairs may be absent (TTML2 10.4.2.2: a property that is not specified on an
   element takes the value of the nearest ancestor that specifies it if it is inherited - whether or not it
   *applies* to the elements in between - and the initial, here default, value otherwise).                    *)

RootCtx(defs, inh) == Restrict(defs, DOMAIN defs \cap inh)

ComputedAt(n, p, defs, inh, ctx) ==
  IF p \in DOMAIN n.styles THEN n.styles[p] ELSE IF p \in inh THEN ctx[p] ELSE defs[p]

NextCtx(n, defs, inh, ctx) == [p \in DOMAIN ctx |-> ComputedAt(n, p, defs, inh, ctx)]

\* the same tree with, on every node, the computed value of every property of the defaults table
RECURSIVE ComputedNode(_, _, _, _)
ComputedNode(n, defs, inh, ctx) ==
  [n EXCEPT !.styles = [p \in DOMAIN defs |-> ComputedAt(n, p, defs, inh, ctx)],
            !.children = [j \in 1..NK(n) |-> ComputedNode(n.children[j], defs, inh, NextCtx(n, defs, inh, ctx))]]
Computed(x, defs, inh) == [r \in 1..Len(x) |-> ComputedNode(x[r], defs, inh, RootCtx(defs, inh))]

\* the flat reading used by the SRT / WebVTT writers: a node is read on its own, absent = default
RECURSIVE FlatNode(_, _)
FlatNode(n, defs) ==
  [n EXCEPT !.styles = [p \in (DOMAIN defs \cup DOMAIN n.styles) |-> IF p \in DOMAIN n.styles THEN n.styles[p] ELSE defs[p]],
            !.children = [j \in 1..NK(n) |-> FlatNode(n.children[j], defs)]]
FlatRead(x, defs) == [r \in 1..Len(x) |-> FlatNode(x[r], defs)]

\* a pair may go iff it holds the default and the node would compute the default without it; top-down, so
\* ctx is what the (already filtered) ancestors hand down - which is what they handed down before, see
\* RemoveDefaultsKeepsComputed
Removable(n, p, defs, inh, ctx) ==
  /\ p \in DOMAIN defs /\ n.styles[p] = defs[p]
  /\ (p \in inh => ctx[p] = defs[p])

RECURSIVE RdNode(_, _, _, _)
RdNode(n, defs, inh, ctx) ==
  [n EXCEPT !.styles = Restrict(n.styles, {p \in DOMAIN n.styles : ~Removable(n, p, defs, inh, ctx)}),
            !.children = [j \in 1..NK(n) |-> RdNode(n.children[j], defs, inh, NextCtx(n, defs, inh, ctx))]]
RemoveDefaults(x, defs, inh) == [r \in 1..Len(x) |-> RdNode(x[r], defs, inh, RootCtx(defs, inh))]

\* pairs every implementation must remove: the default, with no ancestor holding anything else
RECURSIVE MustGoNode(_, _, _, _)     \* anc = properties for which some ancestor holds a non-default value
MustGoNode(n, defs, inh, anc) ==
  [n EXCEPT !.styles = Restrict(n.styles, {p \in DOMAIN n.styles : p \in DOMAIN defs /\ n.styles[p] = defs[p] /\ p \notin anc}),
            !.children = [j \in 1..NK(n) |-> MustGoNode(n.children[j], defs, inh,
                             anc \cup {p \in DOMAIN n.styles \cap DOMAIN defs \cap inh : n.styles[p] # defs[p]})]]
MustGo(x, defs, inh) == [r \in 1..Len(x) |-> MustGoNode(x[r], defs, inh, {})]

\* a default-valued pair of an inherited property whose parent does not specify the property although a more
\* distant ancestor specifies another value ("gap"): the case in which parent and nearest specifying ancestor differ
RECURSIVE GapNode(_, _, _, _, _)     \* ctx as above; pst = styles of the parent
GapNode(n, defs, inh, ctx, pst) ==
  \/ \E p \in DOMAIN n.styles \cap DOMAIN defs \cap inh : n.styles[p] = defs[p] /\ p \notin DOMAIN pst /\ ctx[p] # defs[p]
  \/ \E j \in 1..NK(n) : GapNode(n.children[j], defs, inh, NextCtx(n, defs, inh, ctx), n.styles)
HasGap(x, defs, inh) == \E r \in 1..Len(x) : \E j \in 1..NK(x[r]) :
                           GapNode(x[r].children[j], defs, inh, NextCtx(x[r], defs, inh, RootCtx(defs, inh)), x[r].styles)

-----------------------------------------------------------------------------
(* Content documents: elements with discrete animation steps, initial values.
   element = [kind, id, styles, anims, children, text], anims = sequence of [p, v, b, e] (e = -1: unbounded)
   doc     = [initials : style set, regions : sequence of elements, body : sequence of 0 or 1 element]       *)

DNode(k, id, st, an, ch, t) == [kind |-> k, id |-> id, styles |-> st, anims |-> an, children |-> ch, text |-> t]
Step(p, v, b, e) == [p |-> p, v |-> v, b |-> b, e |-> e]

RECURSIVE RaNode(_, _)
RaNode(n, rec) == [n EXCEPT !.anims = <<>>,
                            !.children = IF rec THEN [j \in 1..NK(n) |-> RaNode(n.children[j], rec)] ELSE n.children]

RECURSIVE SumSeq(_)
SumSeq(s) == IF s = <<>> THEN 0 ELSE Head(s) + SumSeq(Tail(s))
RECURSIVE AnimCount(_, _)
AnimCount(n, rec) == Len(n.anims) + (IF rec THEN SumSeq([j \in 1..NK(n) |-> AnimCount(n.children[j], rec)]) ELSE 0)
HasAnims(n, rec) == AnimCount(n, rec) > 0

\* the whole document, the way the LCD filter uses the element filter: body and regions, recursively
RemoveAnimations(d) == [d EXCEPT !.regions = [r \in 1..Len(d.regions) |-> RaNode(d.regions[r], TRUE)],
                                 !.body = [j \in 1..Len(d.body) |-> RaNode(d.body[j], TRUE)]]
DocHasAnims(d) == (\E r \in 1..Len(d.regions) : HasAnims(d.regions[r], TRUE)) \/ (\E j \in 1..Len(d.body) : HasAnims(d.body[j], TRUE))

KeepInitials(d, sup) == [d EXCEPT !.initials = KeepStyles(d.initials, sup)]
KeepBody(d, sup, rec) == [d EXCEPT !.body = [j \in 1..Len(d.body) |-> KeepNode(d.body[j], sup, rec)]]

\* style specified on element n for p at time t when animation is honoured ("" = none)
Active(s, t) == s.b <= t /\ (s.e = -1 \/ t < s.e)
SpecifiedAt(n, p, t) ==
  LET act == SelectSeq(n.anims, LAMBDA s : s.p = p /\ Active(s, t)) IN
  IF act # <<>> THEN act[Len(act)].v ELSE IF p \in DOMAIN n.styles THEN n.styles[p] ELSE ""

RECURSIVE DFlat(_, _)
DFlat(n, d) == <<[kind |-> n.kind, id |-> n.id, styles |-> n.styles, anims |-> n.anims, text |-> n.text, depth |-> d]>>
               \o ConcatAll([j \in 1..NK(n) |-> DFlat(n.children[j], d + 1)])
DocFlat(d) == ConcatAll([r \in 1..Len(d.regions) |-> DFlat(d.regions[r], 0)]) \o ConcatAll([j \in 1..Len(d.body) |-> DFlat(d.body[j], 0)])

-----------------------------------------------------------------------------
(* The small model: properties, tables, families *)

\* fs  inherited,     default d, supported values d and x only     (think tts:fontStyle: normal, italic | oblique)
\* bg  not inherited, default d, every value supported             (think tts:backgroundColor)
\* td  inherited,     no default, every value supported            (think tts:textDecoration in SRT)
\* op  not inherited, no default, not supported                    (think tts:opacity)
MInh == {"fs", "td"}
MDef == ("fs" :> "d") @@ ("bg" :> "d")
MSup == ("fs" :> {"d", "x"}) @@ ("bg" :> {}) @@ ("td" :> {})

S1(p, v) == (p :> v)
S2(p, v, q, w) == (p :> v) @@ (q :> w)

Sp(st, t)  == El("span", st, <<Txt(t)>>)

\* A. inheritance chains: region > body > div > p > span > {text, span > text}
Chain(rs, ds, ps, s1, s2) ==
  << Reg("r1", rs, << El("body", NoS, << El("div", ds, << El("p", ps,
        << El("span", s1, << Txt("a"), El("span", s2, <<Txt("b")>>) >>) >>) >>) >>) >>) >>
SS == IF ChainLevel >= 2
      THEN {NoS, S1("fs", "d"), S1("fs", "x"), S1("fs", "y"), S1("bg", "d"), S1("bg", "x"), S2("fs", "d", "bg", "d"), S1("op", "x"), S1("td", "x")}
      ELSE {NoS, S1("fs", "d"), S1("fs", "x"), S1("fs", "y"), S2("fs", "d", "bg", "d")}
PS == IF ChainLevel >= 2 THEN {NoS, S1("fs", "d"), S1("fs", "x"), S1("bg", "d")} ELSE {NoS, S1("fs", "x")}
DS == IF ChainLevel >= 2 THEN {NoS, S1("fs", "d"), S1("fs", "x")} ELSE {NoS, S1("fs", "d")}
RS == IF ChainLevel >= 2 THEN {NoS, S1("fs", "x"), S1("bg", "d")} ELSE {NoS, S1("fs", "x")}
FamChains == IF ChainLevel = 0 THEN {} ELSE {Chain(rs, ds, ps, s1, s2) : rs \in RS, ds \in DS, ps \in PS, s1 \in SS, s2 \in SS}

\* G. a container to which the property does not apply sits between two spans: p > span > ruby > {rb > span, rt > span}
Gap(ps, s1, s2, s3) ==
  << Reg("r1", NoS, << El("body", NoS, << El("div", NoS, << El("p", ps,
        << El("span", s1, << Txt("a"), El("span", NoS, <<Txt("c")>>) >>),
           El("ruby", S1("bg", "d"), << El("rb", s2, << El("span", s3, <<Txt("b")>>) >>), El("rt", NoS, << El("span", S1("fs", "d"), <<Txt("t")>>) >>) >>) >>) >>) >>) >>) >>
GS == {NoS, S1("fs", "d"), S1("fs", "x")}
FamGaps == IF ChainLevel = 0 THEN {} ELSE {Gap(ps, s1, s2, s3) : ps \in {NoS, S1("fs", "x")}, s1 \in GS, s2 \in GS, s3 \in GS}

\* B. structure: 1..MaxRegions regions, each one of NLayouts layouts; texts are unique: prefix = region number
NLayouts == 9
Pre(k) == CASE k = 1 -> "1" [] k = 2 -> "2" [] k = 3 -> "3" [] OTHER -> "9"
Layout(k, c) ==
  LET t(s) == Pre(k) \o s
      id == "r" \o Pre(k) IN
  CASE c = 1 -> Reg(id, NoS, <<>>)                                                        \* no body
    [] c = 2 -> Reg(id, S1("bg", "x"), << El("body", NoS, << El("div", NoS, << El("p", NoS, << Sp(NoS, t("a")) >>) >>) >>) >>)
    [] c = 3 -> Reg(id, NoS, << El("body", S1("bg", "d"), << El("div", NoS,                 \* two p agreeing on fs
                   << El("p", S1("fs", "x"), << Sp(S1("fs", "x"), t("a")) >>),
                      El("p", S2("fs", "x", "bg", "x"), << Sp(NoS, t("b")), BrN, Sp(S1("bg", "x"), t("c")) >>) >>) >>) >>)
    [] c = 4 -> Reg(id, S1("op", "x"), << El("body", NoS,                                   \* nested div, empty p, no agreement
                   << El("div", S1("bg", "x"), << El("p", S2("fs", "x", "td", "x"), << Sp(NoS, t("a")) >>) >>),
                      El("div", NoS, << El("div", S1("fs", "x"), << El("p", S1("fs", "d"), <<>>) >>),
                                        El("p", NoS, << Sp(S1("fs", "y"), t("b")) >>) >>) >>) >>)
    [] c = 5 -> Reg(id, NoS, << El("body", NoS, << El("div", S1("fs", "d"), <<>>) >>) >>)  \* a division without paragraph
    [] c = 6 -> Reg(id, NoS, << El("body", S1("fs", "x"), <<>>) >>)                        \* a body without division
    [] c = 7 -> Reg(id, S1("fs", "x"), << El("body", NoS,                                   \* three p over two div, nested span, br in span
                   << El("div", NoS, << El("p", S1("td", "x"), << El("span", S1("fs", "d"), << Txt(t("a")), BrN, El("span", S1("fs", "x"), <<Txt(t("b"))>>) >>) >>) >>),
                      El("div", NoS, << El("p", S1("td", "x"), << BrN >>), El("p", S2("td", "x", "fs", "d"), << Sp(S1("fs", "d"), t("c")) >>) >>) >>) >>)
    [] c = 8 -> Reg(id, NoS, << El("body", NoS, << El("div", NoS,                          \* two p in one div, different values of fs
                   << El("p", S1("fs", "x"), << Sp(S1("op", "x"), t("a")) >>), El("p", S1("fs", "d"), << Sp(S1("fs", "d"), t("b")) >>) >>) >>) >>)
    [] OTHER -> Reg(id, S1("bg", "d"), << El("body", NoS, << El("div", NoS,                \* c = 9: one p holding only a br and a blank span
                   << El("p", S1("bg", "d"), << BrN, Sp(S1("bg", "d"), t(" ")) >>) >>) >>) >>)

FamStruct == UNION {{[r \in 1..n |-> Layout(r, c[r])] : c \in [1..n -> BodyChoices]} : n \in 1..MaxRegions}

Family == FamStruct \cup FamChains \cup FamGaps

\* documents: body > div > p > span > text with steps here and there, two regions, initial values
DocOf(a1, a2, a3, ar, ini) ==
  [initials |-> ini,
   regions  |-> << DNode("region", "r1", S1("bg", "x"), ar, <<>>, ""), DNode("region", "r2", NoS, <<>>, <<>>, "") >>,
   body     |-> << DNode("body", "", NoS, a1, << DNode("div", "", S1("fs", "x"), <<>>,
                     << DNode("p", "", S1("fs", "d"), a2, << DNode("span", "", S2("fs", "y", "op", "x"), a3, << DNode("text", "", NoS, <<>>, <<>>, "a") >>, ""),
                                                           DNode("br", "", NoS, <<>>, <<>>, "") >>, "") >>, "") >>, "") >>]
AnimChoices == {<<>>, <<Step("fs", "x", 0, 2)>>, <<Step("bg", "x", 1, -1), Step("bg", "d", 2, 3)>>,
                <<Step("fs", "y", 0, -1), Step("fs", "y", 0, -1), Step("op", "x", 1, 2)>>}
DocFamily == {DocOf(a1, a2, a3, ar, ini) : a1 \in AnimChoices, a2 \in AnimChoices, a3 \in AnimChoices, ar \in {<<>>, <<Step("bg", "d", 0, 1)>>},
                                           ini \in {NoS, S1("fs", "y"), S2("fs", "x", "op", "x"), S2("bg", "x", "td", "x")}}
           \cup {[initials |-> NoS, regions |-> <<>>, body |-> <<>>]}
NoDoc == [initials |-> NoS, regions |-> <<>>, body |-> <<>>]

-----------------------------------------------------------------------------
(* The machine *)

VARIABLES init,    \* the ISD picked
          isd,     \* the ISD now
          doc0,    \* the document picked
          doc,     \* the document now
          flag,    \* "doc": has any application of RemoveAnimations removed a step (has_removed_animations)
          hist     \* the filters applied so far
vars == <<init, isd, doc0, doc, flag, hist>>

Init == /\ hist = <<>> /\ flag = FALSE
        /\ IF Mode = "isd" THEN init \in Family /\ doc0 = NoDoc ELSE init = <<>> /\ doc0 \in DocFamily
        /\ isd = init /\ doc = doc0

CanStep == Len(hist) < MaxDepth
IsdStep(name, y) == /\ Mode = "isd" /\ CanStep /\ isd' = y /\ hist' = Append(hist, name) /\ UNCHANGED <<init, doc0, doc, flag>>
DocStep(name, y, f) == /\ Mode = "doc" /\ CanStep /\ doc' = y /\ flag' = f /\ hist' = Append(hist, name) /\ UNCHANGED <<init, isd, doc0>>

DoMergeRegions    == IsdStep("mr", MergeRegions(isd))
DoMergeParagraphs == IsdStep("mp", MergeParagraphs(isd))
DoKeepSupported   == IsdStep("ks", KeepSupported(isd, MSup))
DoRemoveDefaults  == IsdStep("rd", RemoveDefaults(isd, MDef, MInh))

DoRemoveAnimations == DocStep("ra", RemoveAnimations(doc), flag \/ DocHasAnims(doc))
DoKeepInitials     == DocStep("ki", KeepInitials(doc, MSup), flag)
DoKeepBody         == DocStep("kb", KeepBody(doc, MSup, TRUE), flag)
DoKeepBodyShallow  == DocStep("kb1", KeepBody(doc, MSup, FALSE), flag)

Next == \/ DoMergeRegions \/ DoMergeParagraphs \/ DoKeepSupported \/ DoRemoveDefaults
        \/ DoRemoveAnimations \/ DoKeepInitials \/ DoKeepBody \/ DoKeepBodyShallow

Spec == Init /\ [][Next]_vars

Apply(name, x) == CASE name = "mr" -> MergeRegions(x)
                    [] name = "mp" -> MergeParagraphs(x)
                    [] name = "ks" -> KeepSupported(x, MSup)
                    [] name = "rd" -> RemoveDefaults(x, MDef, MInh)
RECURSIVE FoldFrom(_, _, _)
FoldFrom(x, h, j) == IF j > Len(h) THEN x ELSE FoldFrom(Apply(h[j], x), h, j + 1)

-----------------------------------------------------------------------------
(* Design properties: invariants of every reachable state *)

TypeOK == /\ Len(hist) <= MaxDepth
          /\ \A j \in 1..Len(hist) : hist[j] \in {"mr", "mp", "ks", "rd", "ra", "ki", "kb", "kb1"}

FamilyWellFormed == Mode = "isd" => ShapeOK(init)

\* the ISD shape survives every filter
ShapeKept == Mode = "isd" => ShapeOK(isd)

\* no filter loses, duplicates or reorders a text run
TextRunsKept == Texts(ItemsIsd(isd)) = Texts(ItemsIsd(init))

\* the state is the fold of the history (the functional form used for conformance is the machine)
FoldIsMachine == Mode = "isd" => isd = FoldFrom(init, hist, 1)

\* --- contracts of the filters, on every reachable ISD x ---

MergeRegionsContract(x) ==
  LET y == MergeRegions(x) IN
  /\ ItemsIsd(y) = ItemsIsd(x)                                  \* text runs and line breaks as they were
  /\ Cardinality(NonEmpty(x)) >= 2 =>
        /\ Len(y) = 1 /\ y[1].id = JoinIds(Ids(x)) /\ HasBody(y[1])
        /\ y[1].styles = NoS /\ y[1].children[1].styles = NoS
  /\ Cardinality(NonEmpty(x)) <= 1 => y = x
  /\ Divisions(y) = Divisions(x)                                \* every division, untouched, in region order
  /\ Cardinality(NonEmpty(y)) <= 1
  /\ MergeRegions(y) = y

RECURSIVE JoinItems(_)
JoinItems(ps) == IF ps = <<>> THEN <<>> ELSE IF Len(ps) = 1 THEN Items(ps[1]) ELSE Items(ps[1]) \o <<"<br>">> \o JoinItems(Tail(ps))
NotBr(n) == n.kind # "br"
InlineOf(ps) == ConcatAll([j \in 1..Len(ps) |-> ps[j].children])

MergeParagraphsContract(x) ==
  LET y == MergeParagraphs(x) IN
  /\ Ids(y) = Ids(x)
  /\ \A r \in 1..Len(x) :
       LET ps == IF HasBody(x[r]) THEN Paragraphs(x[r].children[1]) ELSE <<>>
           qs == IF HasBody(y[r]) THEN Paragraphs(y[r].children[1]) ELSE <<>> IN
       /\ y[r].styles = x[r].styles /\ HasBody(y[r]) = HasBody(x[r])
       /\ HasBody(x[r]) => y[r].children[1].styles = x[r].children[1].styles
       /\ Len(qs) <= 1                                                            \* at most one paragraph per region
       /\ Len(ps) <= 1 => y[r] = x[r]
       /\ Len(ps) >= 2 => /\ Len(qs) = 1
                          /\ Items(qs[1]) = JoinItems(ps)                          \* exactly one br between former paragraphs
                          /\ SelectSeq(qs[1].children, NotBr) = SelectSeq(InlineOf(ps), NotBr)    \* inline content untouched
                          /\ \A k \in DOMAIN qs[1].styles : \A j \in 1..Len(ps) : k \in DOMAIN ps[j].styles /\ ps[j].styles[k] = qs[1].styles[k]
                          /\ \A k \in DOMAIN ps[1].styles : (\A j \in 1..Len(ps) : k \in DOMAIN ps[j].styles /\ ps[j].styles[k] = ps[1].styles[k])
                                                             => k \in DOMAIN qs[1].styles
  /\ MergeParagraphs(y) = y

OnlySupported(x, sup) == \A j \in 1..Len(FlatIsd(x)) : LET st == FlatIsd(x)[j].styles IN \A p \in DOMAIN st : Supports(sup, p, st[p])

KeepSupportedContract(x) ==
  LET y == KeepSupported(x, MSup)  fx == FlatIsd(x)  fy == FlatIsd(y) IN
  /\ SameSkeleton(x, y) /\ Ids(y) = Ids(x) /\ ItemsIsd(y) = ItemsIsd(x)
  /\ OnlySupported(y, MSup)
  /\ \A j \in 1..Len(fx) : \A p \in DOMAIN fx[j].styles :                        \* a supported pair stays, as it was
        Supports(MSup, p, fx[j].styles[p]) => p \in DOMAIN fy[j].styles /\ fy[j].styles[p] = fx[j].styles[p]
  /\ \A j \in 1..Len(fx) : DOMAIN fy[j].styles \subseteq DOMAIN fx[j].styles
  /\ KeepSupported(y, MSup) = y

\* no default-valued pair is left that could go
NoRedundantDefault(x, defs, inh) == RemoveDefaults(x, defs, inh) = x

RemoveDefaultsContract(x) ==
  LET y == RemoveDefaults(x, MDef, MInh)  fx == FlatIsd(x)  fy == FlatIsd(y) IN
  /\ SameSkeleton(x, y) /\ Ids(y) = Ids(x) /\ ItemsIsd(y) = ItemsIsd(x)
  /\ \A j \in 1..Len(fx) : /\ DOMAIN fy[j].styles \subseteq DOMAIN fx[j].styles
                           /\ \A p \in DOMAIN fx[j].styles :
                                 IF p \in DOMAIN fy[j].styles THEN fy[j].styles[p] = fx[j].styles[p]
                                 ELSE p \in DOMAIN MDef /\ fx[j].styles[p] = MDef[p]          \* only defaults go
  /\ Computed(y, MDef, MInh) = Computed(x, MDef, MInh)           \* THE point: no computed value changes (inheriting reading)
  /\ FlatRead(y, MDef) = FlatRead(x, MDef)                       \* nor does the flat reading of the writers
  /\ NoRedundantDefault(y, MDef, MInh)                           \* idempotent, nothing removable left
  \* every pair that must go is gone: default, and no ancestor says otherwise
  /\ LET m == FlatIsd(MustGo(x, MDef, MInh)) IN
     \A j \in 1..Len(fx) : \A p \in DOMAIN m[j].styles : p \notin DOMAIN fy[j].styles
  \* on a region (no ancestor) no default is left
  /\ \A r \in 1..Len(y) : \A p \in DOMAIN y[r].styles : ~(p \in DOMAIN MDef /\ y[r].styles[p] = MDef[p])

Contracts == Mode = "isd" => /\ MergeRegionsContract(isd) /\ MergeParagraphsContract(isd)
                             /\ KeepSupportedContract(isd) /\ RemoveDefaultsContract(isd)

\* --- filters commute where they should ---
MR(x) == MergeRegions(x)
MP(x) == MergeParagraphs(x)
KS(x) == KeepSupported(x, MSup)
RD(x) == RemoveDefaults(x, MDef, MInh)
Fl(x) == FlatRead(x, MDef)

\* what the writers read of the structure: the paragraphs, region by region
Cues(x) == [r \in 1..Len(x) |-> IF HasBody(x[r]) THEN Paragraphs(x[r].children[1]) ELSE <<>>]

CommStyleStructure == Mode = "isd" => /\ KS(MR(isd)) = MR(KS(isd))      \* filtering styles is independent of the structure
                                      /\ KS(MP(isd)) = MP(KS(isd))
\* merging paragraphs before merging regions is absorbed (up to divisions left without paragraph)
CommMergeAbsorbed  == Mode = "isd" => /\ Cues(MP(MR(MP(isd)))) = Cues(MP(MR(isd)))
                                      /\ MR(MP(MR(isd))) = MP(MR(isd))   \* one region stays one region
\* for a flat reader the order of the two style filters is immaterial, and so is when defaults are removed
CommFlatKS == Mode = "isd" => Fl(RD(KS(isd))) = Fl(KS(RD(isd)))
CommFlatMR == Mode = "isd" => Fl(RD(MR(isd))) = Fl(MR(RD(isd)))
CommFlatMP == Mode = "isd" => Fl(RD(MP(isd))) = Fl(MP(RD(isd)))

\* the pipeline of the SRT writer (and of the WebVTT writer without line positions) yields the normal form
Pipeline(x) == RD(KS(MP(MR(x))))
PipelineNormalForm == Mode = "isd" =>
  LET y == Pipeline(isd) IN
  /\ Cardinality(NonEmpty(isd)) >= 2 => Len(y) = 1
  /\ \A r \in 1..Len(y) : HasBody(y[r]) => Len(Paragraphs(y[r].children[1])) <= 1
  /\ Cardinality({r \in 1..Len(y) : HasBody(y[r]) /\ Paragraphs(y[r].children[1]) # <<>>}) <= 1      \* one cue
  /\ OnlySupported(y, MSup) /\ NoRedundantDefault(y, MDef, MInh)
  /\ Texts(ItemsIsd(y)) = Texts(ItemsIsd(isd))
  /\ Pipeline(y) = y
  /\ ShapeOK(isd) => ShapeOK(y)

\* --- documents ---
DocContracts == Mode = "doc" =>
  LET y == RemoveAnimations(doc)  fx == DocFlat(doc)  fy == DocFlat(y) IN
  /\ Len(fy) = Len(fx)
  /\ \A j \in 1..Len(fx) : /\ fy[j].anims = <<>>                                              \* no step left
                           /\ [fy[j] EXCEPT !.anims = <<>>] = [fx[j] EXCEPT !.anims = <<>>]  \* nothing else touched
                           /\ \A p \in {"fs", "bg", "td", "op"}, t \in 0..3 :                 \* what is specified is what is in effect, always
                                 SpecifiedAt(fy[j], p, t) = (IF p \in DOMAIN fx[j].styles THEN fx[j].styles[p] ELSE "")
  /\ y.initials = doc.initials
  /\ RemoveAnimations(y) = y /\ ~DocHasAnims(y)
  /\ DocHasAnims(doc) = (\E j \in 1..Len(fx) : fx[j].anims # <<>>)
  \* not recursive: the element itself only
  /\ \A j \in 1..Len(doc.body) : LET z == RaNode(doc.body[j], FALSE) IN z.anims = <<>> /\ z.children = doc.body[j].children
  \* initial values
  /\ LET k == KeepInitials(doc, MSup) IN
       /\ \A p \in DOMAIN k.initials : Supports(MSup, p, k.initials[p]) /\ k.initials[p] = doc.initials[p]
       /\ \A p \in DOMAIN doc.initials : Supports(MSup, p, doc.initials[p]) => p \in DOMAIN k.initials
       /\ k.body = doc.body /\ k.regions = doc.regions /\ KeepInitials(k, MSup) = k
  \* elements
  /\ LET k == KeepBody(doc, MSup, TRUE)  fk == DocFlat(k) IN
       /\ Len(fk) = Len(fx) /\ k.regions = doc.regions /\ k.initials = doc.initials
       /\ \A j \in 1..Len(fx) : /\ [fk[j] EXCEPT !.styles = NoS] = [fx[j] EXCEPT !.styles = NoS]
                                /\ fk[j].styles = KeepStyles(fx[j].styles, MSup)
       /\ KeepBody(KeepBody(doc, MSup, FALSE), MSup, TRUE) = k
       /\ RemoveAnimations(k) = KeepBody(y, MSup, TRUE)                                      \* the two filters commute

\* the flag of the animation filter tells whether the picked document had any step, once the filter has run
FlagMeaning == Mode = "doc" => /\ (flag => DocHasAnims(doc0))
                               /\ ((\E j \in 1..Len(hist) : hist[j] = "ra") => (flag = DocHasAnims(doc0) /\ ~DocHasAnims(doc)))
=============================================================================
