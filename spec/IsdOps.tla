---------------------------------- MODULE IsdOps ----------------------------------
(* Histories of read-only operations on ONE document object (property C14).

   The operations - significant_times, from_model with and without the significant-times cache,
   generate_isd_sequence, the SRT / WebVTT / IMSC writers - are all functions of the document: none may
   change it, and calling one again must give an equal result whatever happened in between.

   State: doc (fingerprint of the source document), cache ("absent" | "built": whether a
   significant-times object has been produced and can be passed to from_model), memo (operation ->
   result of its first call, "?" before), last (the operation just executed and its result).
   The specification is deliberately trivial as a design - every action leaves doc unchanged and returns
   F(doc, op) - what matters is that TLC enumerates every history up to a bound and that every recorded
   history of the implementation is replayed through these actions.                                    *)
EXTENDS Naturals, Sequences, FiniteSets, TLC

CONSTANTS Ops,        \* set of operation names, e.g. {"sig", "snapU_3", "snapC_3", "seq", "srt", "vtt", "imsc", "imscf"}
          CachedOps,  \* subset of Ops that need the cache object (from_model with sig_times)
          MaxLen      \* history length bound

VARIABLES doc, cache, memo, hist
vars == <<doc, cache, memo, hist>>

Unknown == <<"?", "?">>
F(d, op) == <<d, op>>            \* the abstract result: a function of document and operation only

Init == doc = "d0" /\ cache = "absent" /\ memo = [o \in Ops |-> Unknown] /\ hist = <<>>

Do(op) ==
  /\ Len(hist) < MaxLen
  /\ op \in CachedOps => cache = "built"
  /\ doc' = doc                                         \* never changes the source
  /\ cache' = IF op = "sig" THEN "built" ELSE cache
  /\ memo' = [memo EXCEPT ![op] = F(doc, op)]
  /\ hist' = Append(hist, op)

Next == \E op \in Ops : Do(op)
Spec == Init /\ [][Next]_vars

DocUnchanged == doc = "d0"
MemoSingleValued == \A o \in Ops : memo[o] \in {Unknown, F("d0", o)}
RepeatEqual == [][\A o \in Ops : memo[o] # Unknown => memo'[o] = memo[o]]_vars
=============================================================================
