------------------------------------ MODULE Lcd ------------------------------------
(* The LCD ("least common denominator") document filter, property C16.

   Written from the property text and the README ("merges regions and removes all text formatting with
   the exception of color and text alignment"; safe_area, color, bg_color, preserve_text_align), not
   from the code.

   Abstract document (the same shape is produced by harness/lcd_docs.py: project()):
     init    [sty, color, bg, ta]                        initial values (tts:initial)
     regions sequence of [id, b, e, wm, da, org, pos, ext, sty, steps, color, bg, ta]
     nodes   sequence in document order of [kind, par, reg, b, e, sty, steps, tid, color, bg, ta]
             kind in body|div|p|span|br ; par = index of the parent (0 for the body) ; reg = region id or ""
             tid = text id (> 0 for a span that holds a text node, else 0)
   b, e     begin / end in ticks relative to the parent's begin, -1 = unspecified
   wm da    writing mode / display alignment name or "none" (unspecified)
   org pos ext   opaque tokens ("none" = unspecified); SafeOrg / SafeExt build the tokens of a safe area
   color bg ta   value tokens of the three properties the filter may keep ("none" = unspecified)
   sty      names of all *other* specified style properties ; steps = sequence of [p, b, e] (animation)

   How the resulting display alignment of a region is chosen is NOT part of C16 (neither the property
   nor the README define it): it is the parameter `al` of Lcd (one value per input region).  The only
   thing the property forces on it is stability (a region that is already normalised keeps its
   alignment), otherwise "twice = once" could not hold.

   The writing mode is not among the styles that may remain, so a merge key that contains it cannot be
   idempotent; Lcd therefore merges on (timing, resulting alignment[, text alignment when preserved]),
   which implies the clause of the property (equal timing, writing mode and alignment => merged).  *)
EXTENDS Naturals, Integers, Sequences, FiniteSets, TLC

CONSTANTS Units,      \* units used by the geometry sub-family, subset of {"pct", "px", "c", "r"}
          MaxSteps,   \* animation steps per element in the steps sub-family: 0..MaxSteps
          Deep,       \* FALSE: quick family ; TRUE: thorough family (three regions, steps on five elements)
          SafeAreas   \* safe_area values of the design check, subset of 0..30

Range(sq) == {sq[k] : k \in 1..Len(sq)}
Max2(a, b) == IF a > b THEN a ELSE b
Min2(a, b) == IF a < b THEN a ELSE b

-----------------------------------------------------------------------------
(* Vocabulary *)

KeptAlways   == {"DisplayAlign", "Extent", "Origin"}
KeptAsConfig == {"Color", "BackgroundColor", "TextAlign"}
Allowed      == KeptAlways \cup KeptAsConfig
Hiding       == {"Display", "Visibility", "Opacity"}

DefaultColor == "ffffffff"      \* TTML2 initial values
DefaultBg    == "00000000"
DefaultTa    == "start"

\* ToString of a non-negative integer (TLC's ToString is used; kept in one place)
Pct(n) == ToString(n) \o "%"
SafeOrg(sa) == Pct(sa) \o "," \o Pct(sa)
SafeExt(sa) == Pct(100 - 2 * sa) \o "," \o Pct(100 - 2 * sa)

\* names of the specified style properties of a region / a content node / the initial values
RegionStyleNames(r) ==
  Range(r.sty) \cup (IF r.wm # "none" THEN {"WritingMode"} ELSE {}) \cup (IF r.da # "none" THEN {"DisplayAlign"} ELSE {})
     \cup (IF r.org # "none" THEN {"Origin"} ELSE {}) \cup (IF r.pos # "none" THEN {"Position"} ELSE {})
     \cup (IF r.ext # "none" THEN {"Extent"} ELSE {}) \cup (IF r.color # "none" THEN {"Color"} ELSE {})
     \cup (IF r.bg # "none" THEN {"BackgroundColor"} ELSE {}) \cup (IF r.ta # "none" THEN {"TextAlign"} ELSE {})
NodeStyleNames(n) ==
  Range(n.sty) \cup (IF n.color # "none" THEN {"Color"} ELSE {}) \cup (IF n.bg # "none" THEN {"BackgroundColor"} ELSE {})
     \cup (IF n.ta # "none" THEN {"TextAlign"} ELSE {})
InitStyleNames(i) == NodeStyleNames(i)
StepProps(x) == {x.steps[k].p : k \in 1..Len(x.steps)}

NR(d) == Len(d.regions)
NN(d) == Len(d.nodes)
HasRegion(d, id) == \E i \in 1..NR(d) : d.regions[i].id = id
RegIdx(d, id) == CHOOSE i \in 1..NR(d) : d.regions[i].id = id
RegOf(d, id) == d.regions[RegIdx(d, id)]
Beg(x) == IF x.b = -1 THEN 0 ELSE x.b
SameTiming(x, y) == Beg(x) = Beg(y) /\ x.e = y.e

\* a document "hides content through display, visibility or opacity styling"
Hides(d) ==
  \/ \E i \in 1..NR(d) : (RegionStyleNames(d.regions[i]) \cup StepProps(d.regions[i])) \cap Hiding # {}
  \/ \E n \in 1..NN(d) : (NodeStyleNames(d.nodes[n]) \cup StepProps(d.nodes[n])) \cap Hiding # {}
  \/ InitStyleNames(d.init) \cap Hiding # {}

-----------------------------------------------------------------------------
(* TTML presentation semantics needed by C16: which texts are visible at a time, and the computed values
   of color / backgroundColor / textAlign (specified -> inherited through the region -> initial).      *)

\* path from node n up to the body (n first); depth is bounded by the number of nodes
RECURSIVE PathUp(_, _, _)
PathUp(d, n, fuel) == IF n = 0 \/ fuel = 0 THEN <<>> ELSE <<n>> \o PathUp(d, d.nodes[n].par, fuel - 1)
Path(d, n) == PathUp(d, n, NN(d) + 1)

\* absolute interval <<begin, end>> (end = -1: indefinite) : par container semantics, clipped by the parent
RECURSIVE AbsInt(_, _, _)
AbsInt(d, n, fuel) ==
  LET x  == d.nodes[n]
      pi == IF x.par = 0 \/ fuel = 0 THEN <<0, -1>> ELSE AbsInt(d, x.par, fuel - 1)
      bg == pi[1] + Beg(x)
      en == IF x.e = -1 THEN pi[2]
            ELSE IF pi[2] = -1 THEN pi[1] + x.e ELSE Min2(pi[1] + x.e, pi[2])
  IN  <<bg, en>>
ActiveInt(iv, t) == iv[1] <= t /\ (iv[2] = -1 \/ t < iv[2])
NodeActive(d, n, t) == ActiveInt(AbsInt(d, n, NN(d) + 1), t)
RegionActive(r, t) == ActiveInt(<<Beg(r), r.e>>, t)

\* region references met on the path of n (a set of ids)
RefsOnPath(d, n) == {d.nodes[Path(d, n)[k]].reg : k \in 1..Len(Path(d, n))} \ {""}

\* the region a text-bearing node is flowed into, "" when it is flowed nowhere: every reference on the
\* path must name the same region (TTML2 11.3.1.3); without any region the default region is used ("*")
AssocRegion(d, n) ==
  IF NR(d) = 0 THEN "*"
  ELSE LET refs == RefsOnPath(d, n) IN
       IF Cardinality(refs) = 1 THEN (CHOOSE r \in refs : TRUE) ELSE ""

TextNodes(d) == {n \in 1..NN(d) : d.nodes[n].tid > 0}

VisibleNode(d, n, t) ==
  LET a == AssocRegion(d, n) IN
  /\ a # ""
  /\ a # "*" => (HasRegion(d, a) /\ RegionActive(RegOf(d, a), t))
  /\ \A k \in 1..Len(Path(d, n)) : NodeActive(d, Path(d, n)[k], t)

\* only meaningful for documents with ~Hides(d)
TextAt(d, t) == {d.nodes[n].tid : n \in {m \in TextNodes(d) : VisibleNode(d, m, t)}}

\* some text is withheld only because region references on its path disagree
RegionConflict(d) == \E n \in TextNodes(d) : Cardinality(RefsOnPath(d, n)) > 1

Horizon(d) ==
  LET ts == {0} \cup {Beg(d.regions[i]) : i \in 1..NR(d)} \cup {d.regions[i].e : i \in 1..NR(d)}
            \cup {AbsInt(d, n, NN(d) + 1)[1] : n \in 1..NN(d)} \cup {AbsInt(d, n, NN(d) + 1)[2] : n \in 1..NN(d)}
  IN  (CHOOSE m \in ts : \A x \in ts : x <= m) + 1

\* the paragraph that contains node n (0 if none)
RECURSIVE ParaUp(_, _, _)
ParaUp(d, n, fuel) == IF n = 0 \/ fuel = 0 THEN 0 ELSE IF d.nodes[n].kind = "p" THEN n ELSE ParaUp(d, d.nodes[n].par, fuel - 1)
ParaOf(d, n) == ParaUp(d, n, NN(d) + 1)

\* specified-or-inherited value (animation ignored) of an inherited property, for node n flowed into region id a
Field(x, prop) == IF prop = "color" THEN x.color ELSE IF prop = "ta" THEN x.ta ELSE x.bg
RECURSIVE InhUp(_, _, _, _)
InhUp(d, n, prop, fuel) ==
  IF n = 0 \/ fuel = 0 THEN "none"
  ELSE IF Field(d.nodes[n], prop) # "none" THEN Field(d.nodes[n], prop)
  ELSE InhUp(d, d.nodes[n].par, prop, fuel - 1)
Inherited(d, n, prop, a, dflt) ==
  LET v == InhUp(d, n, prop, NN(d) + 1) IN
  IF v # "none" THEN v
  ELSE IF a # "*" /\ a # "" /\ HasRegion(d, a) /\ Field(RegOf(d, a), prop) # "none" THEN Field(RegOf(d, a), prop)
  ELSE IF Field(d.init, prop) # "none" THEN Field(d.init, prop)
  ELSE dflt
ComputedColor(d, n) == Inherited(d, n, "color", AssocRegion(d, n), DefaultColor)
\* textAlign applies to the paragraph of text node n, laid out in the region the text is flowed into
ComputedTa(d, n)    == Inherited(d, ParaOf(d, n), "ta", AssocRegion(d, n), DefaultTa)
\* backgroundColor is not inherited
ComputedBg(d, n) == IF d.nodes[n].bg # "none" THEN d.nodes[n].bg
                    ELSE IF d.init.bg # "none" THEN d.init.bg ELSE DefaultBg

-----------------------------------------------------------------------------
(* The filter *)

\* what remains of the three configurable properties on an element
KeepColor(v, cfg) == IF cfg.color # "none" THEN "none" ELSE v
KeepBg(v, cfg)    == IF cfg.bg # "none" THEN "none" ELSE v
KeepTa(v, cfg)    == IF cfg.pta THEN v ELSE "none"

LcdInit(i, cfg) ==
  [sty |-> SelectSeq(i.sty, LAMBDA s : s \in KeptAlways),
   color |-> KeepColor(i.color, cfg), bg |-> KeepBg(i.bg, cfg), ta |-> KeepTa(i.ta, cfg)]

LcdRegion(r, cfg, a) ==
  [id |-> r.id, b |-> r.b, e |-> r.e, wm |-> "none", da |-> a,
   org |-> SafeOrg(cfg.sa), pos |-> "none", ext |-> SafeExt(cfg.sa),
   sty |-> <<>>, steps |-> <<>>,
   color |-> KeepColor(r.color, cfg), bg |-> KeepBg(r.bg, cfg), ta |-> KeepTa(r.ta, cfg)]

MergeKey(r, cfg) == <<Beg(r), r.e, r.da, r.ta>>      \* r already normalised: r.ta = "none" unless preserved

LcdNode(x, cfg, newreg) ==
  [kind |-> x.kind, par |-> x.par, reg |-> newreg, b |-> x.b, e |-> x.e,
   sty |-> SelectSeq(x.sty, LAMBDA s : s \in KeptAlways), steps |-> <<>>, tid |-> x.tid,
   color |-> IF cfg.color # "none" THEN (IF x.kind = "body" THEN cfg.color ELSE "none") ELSE x.color,
   bg    |-> IF cfg.bg # "none" THEN (IF x.kind = "p" THEN cfg.bg ELSE "none") ELSE x.bg,
   ta    |-> IF ~cfg.pta THEN (IF x.kind = "body" THEN "center" ELSE "none") ELSE x.ta]

Lcd(d, cfg, al) ==
  LET nr   == NR(d)
      norm == [i \in 1..nr |-> LcdRegion(d.regions[i], cfg, al[i])]
      rep  == [i \in 1..nr |-> CHOOSE j \in 1..i : /\ MergeKey(norm[j], cfg) = MergeKey(norm[i], cfg)
                                                    /\ \A k \in 1..(j - 1) : MergeKey(norm[k], cfg) # MergeKey(norm[i], cfg)]
      RECURSIVE Kept(_)
      Kept(i) == IF i > nr THEN <<>> ELSE (IF rep[i] = i THEN <<norm[i]>> ELSE <<>>) \o Kept(i + 1)
      newreg(x) == IF x.reg = "" \/ ~HasRegion(d, x.reg) THEN "" ELSE norm[rep[RegIdx(d, x.reg)]].id
  IN  [init    |-> LcdInit(d.init, cfg),
       regions |-> Kept(1),
       nodes   |-> [n \in 1..NN(d) |-> LcdNode(d.nodes[n], cfg, newreg(d.nodes[n]))]]

\* alignment parameter of a second application: forced by stability
StableAl(d) == [i \in 1..NR(d) |-> d.regions[i].da]
Normalised(r, cfg) == r.org = SafeOrg(cfg.sa) /\ r.ext = SafeExt(cfg.sa) /\ r.pos = "none" /\ r.wm = "none" /\ r.da \in {"before", "after"}
Stable(d, cfg, al) == \A i \in 1..NR(d) : Normalised(d.regions[i], cfg) => al[i] = d.regions[i].da

-----------------------------------------------------------------------------
(* Postconditions: predicates over (document before, configuration, document after).  The same
   predicates judge the specification (below, with after = Lcd(before)) and the implementation
   (Trace_Lcd.tla, with after = the projection of the filtered document).                            *)

Post_NoSteps(after) ==
  /\ \A i \in 1..NR(after) : after.regions[i].steps = <<>>
  /\ \A n \in 1..NN(after) : after.nodes[n].steps = <<>>

Post_OnlyAllowedStyles(after) ==
  /\ \A i \in 1..NR(after) : RegionStyleNames(after.regions[i]) \subseteq Allowed
  /\ \A n \in 1..NN(after) : NodeStyleNames(after.nodes[n]) \subseteq Allowed
  /\ InitStyleNames(after.init) \subseteq Allowed

\* "as configured": an overridden colour / background / alignment is the only value of that property left
Post_AsConfigured(after, cfg) ==
  LET all == [k \in 1..(NR(after) + NN(after) + 1) |->
                IF k <= NR(after) THEN after.regions[k]
                ELSE IF k <= NR(after) + NN(after) THEN after.nodes[k - NR(after)] ELSE after.init]
  IN  \A k \in 1..Len(all) :
        /\ cfg.color # "none" => all[k].color \in {"none", cfg.color}
        /\ cfg.bg # "none" => all[k].bg \in {"none", cfg.bg}
        /\ ~cfg.pta => all[k].ta \in {"none", "center"}

Post_SafeArea(after, cfg) ==
  \A i \in 1..NR(after) : LET r == after.regions[i] IN
     r.org = SafeOrg(cfg.sa) /\ r.ext = SafeExt(cfg.sa) /\ r.pos = "none"

\* the tree and the timing of what is kept are untouched; regions of the result are regions of the input
Post_TreeKept(before, after) ==
  /\ NN(after) = NN(before)
  /\ \A n \in 1..Min2(NN(before), NN(after)) :
       LET x == before.nodes[n] y == after.nodes[n] IN
       x.kind = y.kind /\ x.par = y.par /\ x.b = y.b /\ x.e = y.e /\ x.tid = y.tid
  /\ \A i \in 1..NR(after) : /\ HasRegion(before, after.regions[i].id)
                             /\ SameTiming(RegOf(before, after.regions[i].id), after.regions[i])
  /\ \A i, j \in 1..NR(after) : i # j => after.regions[i].id # after.regions[j].id
  /\ NR(before) > 0 => NR(after) > 0

\* regions with equal timing, (input) writing mode and resulting alignment are one
MergedKey(before, r, cfg) == <<Beg(r), r.e, RegOf(before, r.id).wm, r.da, IF cfg.pta THEN r.ta ELSE "none">>
Post_Merged(before, after, cfg) ==
  \A i, j \in 1..NR(after) :
     (i # j /\ HasRegion(before, after.regions[i].id) /\ HasRegion(before, after.regions[j].id))
        => MergedKey(before, after.regions[i], cfg) # MergedKey(before, after.regions[j], cfg)

\* every reference is redirected to the retained region: none dangles, references to retained regions are
\* unchanged, all references to a removed region go to one retained region of the same timing
Post_Redirected(before, after) ==
  \A n \in 1..Min2(NN(before), NN(after)) :
    LET rb == before.nodes[n].reg  ra == after.nodes[n].reg IN
    IF rb = "" \/ ~HasRegion(before, rb) THEN ra = ""
    ELSE /\ ra # "" /\ HasRegion(after, ra)
         /\ IF HasRegion(after, rb) THEN ra = rb
            ELSE /\ SameTiming(RegOf(before, rb), RegOf(after, ra))
                 /\ \A m \in 1..Min2(NN(before), NN(after)) : before.nodes[m].reg = rb => after.nodes[m].reg = ra

\* text timeline (documents that do not hide content through display/visibility/opacity)
Post_SameTextTimeline(before, after) ==
  \A t \in 0..Horizon(before) : TextAt(before, t) = TextAt(after, t)

\* configured values are what is computed for every text and its paragraph
Post_ConfiguredValues(before, after, cfg) ==
  \A n \in TextNodes(after) :
    LET p == ParaOf(after, n) IN
    /\ cfg.color # "none" => ComputedColor(after, n) = cfg.color
    /\ (cfg.bg # "none" /\ p # 0) => ComputedBg(after, p) = cfg.bg
    /\ p # 0 => ComputedTa(after, n) = (IF cfg.pta THEN ComputedTa(before, n) ELSE "center")

-----------------------------------------------------------------------------
(* Bounded family of documents (sty sequences are kept sorted: the projection sorts them).  Geometry tokens are opaque here; harness/lcd_docs.py gives them their
   concrete meaning (GeoTok below must agree with lcd_docs.parse_*; Trace_Lcd re-checks the binding by
   comparing the projection of every built document with the family member it was built from).       *)

NoInit == [sty |-> <<>>, color |-> "none", bg |-> "none", ta |-> "none"]
Reg(id, b, e, wm, da, org, pos, ext, sty, steps, color, bg, ta) ==
  [id |-> id, b |-> b, e |-> e, wm |-> wm, da |-> da, org |-> org, pos |-> pos, ext |-> ext,
   sty |-> sty, steps |-> steps, color |-> color, bg |-> bg, ta |-> ta]
PlainReg(id) == Reg(id, -1, -1, "none", "none", "none", "none", "none", <<>>, <<>>, "none", "none", "none")
Node(kind, par, reg, b, e, sty, steps, tid, color, bg, ta) ==
  [kind |-> kind, par |-> par, reg |-> reg, b |-> b, e |-> e, sty |-> sty, steps |-> steps, tid |-> tid,
   color |-> color, bg |-> bg, ta |-> ta]
PlainNode(kind, par, reg, tid) == Node(kind, par, reg, -1, -1, <<>>, <<>>, tid, "none", "none", "none")
Doc(init, regions, nodes) == [init |-> init, regions |-> regions, nodes |-> nodes]

OrgTok(u) == CASE u = "none" -> "none" [] u = "pct" -> "10%,60%" [] u = "px" -> "192px,648px"
               [] u = "c" -> "4c,9c" [] u = "r" -> "10rw,60rh"
ExtTok(u) == CASE u = "none" -> "none" [] u = "pct" -> "80%,30%" [] u = "px" -> "1536px,324px"
               [] u = "c" -> "24c,4c" [] u = "r" -> "80rw,30rh"
PosTok(u) == CASE u = "none" -> "none" [] u = "pct" -> "left 50% bottom 10%" [] u = "px" -> "right 96px top 54px"
               [] u = "c" -> "left 2c top 1c" [] u = "r" -> "right 10rw bottom 5rh"

\* body > div > p > span(t1)
SimpleBody(reg) == << PlainNode("body", 0, "", 0), PlainNode("div", 1, "", 0), PlainNode("p", 2, reg, 0),
                      PlainNode("span", 3, "", 1) >>

GeoUnits == {"none"} \cup Units
WMs == {"none", "lrtb", "rltb", "tblr", "tbrl"}
DAs == {"none", "before", "center", "after"}

\* F1: one region with origin / position / extent in every unit, every writing mode and display alignment
F1 == { Doc(NoInit,
            << Reg("r1", -1, -1, wm, da, OrgTok(o), PosTok(p), ExtTok(x), <<>>, <<>>, "none", "none", "none") >>,
            SimpleBody("r1")) :
        o \in GeoUnits, p \in GeoUnits, x \in GeoUnits,
        wm \in (IF Deep THEN WMs ELSE {"none", "tbrl"}), da \in (IF Deep THEN DAs ELSE {"none", "after"}) }

\* F2: two or three regions out of eight variants, references from two paragraphs and a nested span
RV(id, k) ==
  CASE k = 1 -> PlainReg(id)
    [] k = 2 -> [PlainReg(id) EXCEPT !.b = 2, !.e = 6]
    [] k = 3 -> [PlainReg(id) EXCEPT !.da = "after"]
    [] k = 4 -> [PlainReg(id) EXCEPT !.org = "10%,60%", !.ext = "80%,30%"]
    [] k = 5 -> [PlainReg(id) EXCEPT !.wm = "tbrl"]
    [] k = 6 -> [PlainReg(id) EXCEPT !.ta = "end"]
    [] k = 7 -> [PlainReg(id) EXCEPT !.b = 2, !.e = 6, !.da = "after"]
    [] k = 8 -> [PlainReg(id) EXCEPT !.e = 0]
MergeBody(a, b, c) ==
  << PlainNode("body", 0, "", 0), PlainNode("div", 1, "", 0),
     PlainNode("p", 2, a, 0), PlainNode("span", 3, "", 1),
     [PlainNode("p", 2, b, 0) EXCEPT !.b = 0, !.e = 4], PlainNode("span", 5, c, 2) >>
F2 == { Doc(NoInit, << RV("r1", k1), RV("r2", k2) >>, MergeBody(a, b, c)) :
        k1 \in 1..8, k2 \in 1..8, a \in {"r1", "r2"}, b \in {"r1", "r2", ""}, c \in {"", "r1"} }
      \cup (IF Deep THEN { Doc(NoInit, << RV("r1", k1), RV("r2", k2), RV("r3", k3) >>, MergeBody(a, b, "")) :
                           k1 \in 1..8, k2 \in 1..8, k3 \in 1..8, a \in {"r1", "r3"}, b \in {"r2", "r3"} }
            ELSE {})

\* F3: 0..MaxSteps animation steps per element and three style patterns
ContentSteps == << [p |-> "Color", b |-> 0, e |-> 2], [p |-> "BackgroundColor", b |-> 2, e |-> 4],
                   [p |-> "TextAlign", b |-> 0, e |-> 6], [p |-> "Color", b |-> 4, e |-> -1] >>
RegionSteps  == << [p |-> "DisplayAlign", b |-> -1, e |-> -1], [p |-> "BackgroundColor", b |-> 0, e |-> 2],
                   [p |-> "Origin", b |-> 2, e |-> 4], [p |-> "Extent", b |-> 4, e |-> -1] >>
StyleBody(pat, sb, sd, sp, ss) ==
  << [PlainNode("body", 0, "", 0) EXCEPT !.steps = SubSeq(ContentSteps, 1, sb),
                                         !.sty = IF pat = 2 THEN <<"LineHeight">> ELSE <<>>],
     [PlainNode("div", 1, "", 0) EXCEPT !.steps = SubSeq(ContentSteps, 1, sd),
                                        !.color = IF pat = 3 THEN "00ff00ff" ELSE "none"],
     [PlainNode("p", 2, "r1", 0) EXCEPT !.steps = SubSeq(ContentSteps, 1, sp),
                                        !.sty = IF pat = 2 THEN <<"FillLineGap", "FontSize">> ELSE <<>>,
                                        !.bg = IF pat = 3 THEN "ffff00ff" ELSE "none",
                                        !.ta = IF pat = 3 THEN "end" ELSE "none"],
     [PlainNode("span", 3, "", 1) EXCEPT !.steps = SubSeq(ContentSteps, 1, ss),
                                         !.sty = IF pat = 2 THEN <<"FontWeight", "TextDecoration">> ELSE <<>>,
                                         !.color = IF pat = 3 THEN "ff00ffff" ELSE "none"],
     [PlainNode("span", 3, "", 2) EXCEPT !.b = 2, !.e = 8,
                                         !.bg = IF pat = 3 THEN "101010ff" ELSE "none"] >>
StyleInit(pat) == IF pat = 2 THEN [NoInit EXCEPT !.sty = <<"Extent", "FontFamily">>]
                  ELSE IF pat = 3 THEN [NoInit EXCEPT !.color = "c0c0c0ff", !.ta = "end"] ELSE NoInit
StyleRegion(pat, sr) ==
  [PlainReg("r1") EXCEPT !.steps = SubSeq(RegionSteps, 1, sr),
                         !.sty = IF pat = 2 THEN <<"Overflow", "Padding", "ShowBackground">> ELSE <<>>,
                         !.bg = IF pat = 3 THEN "000000ff" ELSE "none",
                         !.color = IF pat = 3 THEN "ffff00ff" ELSE "none"]
F3 == { Doc(StyleInit(pat), << StyleRegion(pat, sr) >>, StyleBody(pat, sb, sd, sp, ss)) :
        pat \in 1..3, sr \in 0..MaxSteps, sp \in 0..MaxSteps, ss \in 0..MaxSteps,
        sb \in (IF Deep THEN 0..MaxSteps ELSE {0}), sd \in (IF Deep THEN 0..MaxSteps ELSE {1}) }

\* F4: structure: no body; no region (default region); references on div; nested spans; timed content;
\*     documents that hide content (display / visibility / opacity) for which the timeline is not asserted
F4 ==
  { Doc(NoInit, << [PlainReg("r1") EXCEPT !.pos = PosTok(u), !.ext = ExtTok(u)] >>, <<>>) : u \in GeoUnits }
  \cup { Doc(NoInit, << PlainReg("r1"), [PlainReg("r2") EXCEPT !.pos = PosTok(u)] >>, <<>>) : u \in GeoUnits }
  \cup { Doc(NoInit, <<>>, <<>>) }
  \cup { Doc(NoInit, <<>>,
             << PlainNode("body", 0, "", 0), [PlainNode("div", 1, "", 0) EXCEPT !.b = b1],
                [PlainNode("p", 2, "", 0) EXCEPT !.b = 2, !.e = e2, !.steps = SubSeq(ContentSteps, 1, k)],
                PlainNode("span", 3, "", 1), [PlainNode("span", 4, "", 2) EXCEPT !.e = 1] >>) :
         b1 \in {-1, 2}, e2 \in {-1, 6}, k \in {0, 3} }
  \cup { Doc(NoInit, << PlainReg("r1"), RV("r2", k) >>,
             << PlainNode("body", 0, "", 0), PlainNode("div", 1, a, 0), PlainNode("p", 2, "", 0),
                PlainNode("span", 3, "", 1), PlainNode("div", 1, "", 0), PlainNode("p", 5, b, 0),
                PlainNode("span", 6, "", 2) >>) :
         k \in {1, 2, 3}, a \in {"r1", "r2"}, b \in {"", "r2"} }
  \cup { Doc(NoInit, << [PlainReg("r1") EXCEPT !.sty = rs] >>,
             << PlainNode("body", 0, "", 0), PlainNode("div", 1, "", 0),
                [PlainNode("p", 2, "r1", 0) EXCEPT !.sty = ps, !.steps = st], PlainNode("span", 3, "", 1) >>) :
         rs \in {<<>>, <<"Opacity">>, <<"Visibility">>}, ps \in {<<>>, <<"Display">>},
         st \in {<<>>, <<[p |-> "Display", b |-> 2, e |-> 4]>>, <<[p |-> "Color", b |-> 0, e |-> 2], [p |-> "Visibility", b |-> 2, e |-> 4]>>} }

Family == F1 \cup F2 \cup F3 \cup F4

Cfgs == [sa : SafeAreas, pta : BOOLEAN, color : {"none", "ff0000ff"}, bg : {"none", "0000ffff"}]

-----------------------------------------------------------------------------
(* The machine that lets TLC check the design: pick a document, a configuration and an alignment
   choice, apply the filter once and twice, check every postcondition.                                 *)

VARIABLES phase, doc, cfg, al, out, out2
vars == <<phase, doc, cfg, al, out, out2>>

Init ==
  /\ phase = "in"
  /\ doc \in Family
  /\ cfg \in Cfgs
  /\ al \in [1..NR(doc) -> {"before", "after"}]
  /\ Stable(doc, cfg, al)
  /\ out = 0 /\ out2 = 0

Apply ==
  /\ phase = "in"
  /\ phase' = "out"
  /\ out' = Lcd(doc, cfg, al)
  /\ out2' = Lcd(out', cfg, StableAl(out'))
  /\ UNCHANGED <<doc, cfg, al>>

Next == Apply
Spec == Init /\ [][Next]_vars

Done == phase = "out"
Inv_NoSteps          == Done => Post_NoSteps(out)
Inv_OnlyAllowed      == Done => Post_OnlyAllowedStyles(out) /\ Post_AsConfigured(out, cfg)
Inv_SafeArea         == Done => Post_SafeArea(out, cfg)
Inv_Merged           == Done => Post_TreeKept(doc, out) /\ Post_Merged(doc, out, cfg) /\ Post_Redirected(doc, out)
Inv_SameTextTimeline == (Done /\ ~Hides(doc) /\ ~RegionConflict(doc)) => Post_SameTextTimeline(doc, out)
\* alignment is preserved through merging only if the merged regions agree on it (they do here: it is in the key)
Inv_ConfiguredValues == (Done /\ ~RegionConflict(doc)) => Post_ConfiguredValues(doc, out, cfg)
Inv_Idempotent       == Done => out2 = out
Inv_Total            == Done => (DOMAIN out = {"init", "regions", "nodes"})
=============================================================================
