--------------------------------- MODULE Lex ---------------------------------
(* The lexical layer of TTML2 / IMSC 1.1 attribute values (check X02).

   Every grammar is given TWICE, from the productions of the standards, over sequences of Unicode code points:

     (A) as a deterministic character-level state machine  Start(g), Step(g, q, c), Accepting(g, q)
         with an absorbing state Dead (a string is *viable* while the machine is not Dead);
     (B) as a recursive-descent operator  Parse(g, s, ctx)  that returns the abstract value or a rejection.

   LexMC.tla lets TLC build strings character by character and checks (among other things) that (A) and (B)
   agree on every string it builds; Trace_Lex.tla judges what the library's parsers did with (B).

   Results are records [ok, j, v]:  ok = the string is in the language; j = FALSE marks the few inputs the standards
   leave open (they are not judged); v = the abstract value, a tuple:
       time        <<num, den>>                 seconds, exact, in lowest terms (<<0, 0>> = beyond 32-bit arithmetic)
       length      <<num, den, unit>>           signed rational in lowest terms, unit in "px" "em" "c" "%" "rh" "rw"
       colour      <<r, g, b, a>>               0..255
       position    <<hEdge, <<n, d, u>>, vEdge, <<n, d, u>>>>    offsets from the named edges
       font        sequence of <<1, name, 0>> (generic family) | <<0, name, quoted>> (family name; quoted = 1 when
                   written as a quoted string), name = code points
       parameters  see section 8

   GRAMMARS (TTML2 2nd ed. unless said otherwise; "no linear white-space (LWSP) is implied or permitted between
   tokens unless explicitly specified", TTML2 10.3)

   <timeExpression> (12.3.1)  clock-time | offset-time            (wallclock-time needs ttp:timeBase="clock": not IMSC)
       clock-time   : hours ":" minutes ":" seconds ( fraction | ":" frames ( "." sub-frames )? )?
       offset-time  : time-count fraction? metric
       hours        : <digit> <digit> | <digit> <digit> <digit>+
       minutes | seconds : <digit> <digit>
       frames       : <digit> <digit> | <digit> <digit> <digit>+
       sub-frames   : <digit>+           fraction : "." <digit>+          time-count : <digit>+
       metric       : "h" | "m" | "s" | "ms" | "f" | "t"
     constraints: minutes in [0, 59]; seconds including any fraction in the closed interval [0, 60];
       frames in [0, F-1], F = ttp:frameRate; sub-frames in [0, S-1], S = ttp:subFrameRate (1 in IMSC).
     value (Annex I, media time base): 3600 h + 60 m + s + (frames + subFrames / S) / effectiveFrameRate,
       effectiveFrameRate = frameRate * frameRateMultiplier; offset: count * {3600, 60, 1, 1/1000,
       1/effectiveFrameRate, 1/tickRate}.

   <length> (10.3.23)  scalar | percentage
       scalar : number units      percentage : number "%"      units : "px" | "em" | "c" | "rw" | "rh"
       number : sign? non-negative-number      sign : "+" | "-"
       non-negative-number : <digit>+ | <digit>* "." <digit>+

   <color> (10.3.5)
       "#" rrggbb | "#" rrggbbaa | "rgb(" r "," g "," b ")" | "rgba(" r "," g "," b "," a ")" | <named-color>
       rrggbb : <hexDigit>{6}   rrggbbaa : <hexDigit>{8}   component : <digit>+  in [0, 255]
       <named-color> (10.3.25): the 19 lower-case names of section 5 below.

   <font-families> (10.3.14)  font-family (<lwsp>? "," <lwsp>? font-family)*
       font-family : <family-name> | <generic-family-name>
       <family-name> (10.3.12) : unquoted-string | quoted-string
       unquoted-string : identifier ( lwsp identifier )*
       quoted-string   : '"' ( [^"\\] | escape )+ '"'  |  "'" ( [^'\\] | escape )+ "'"
       identifier : [-]? identifier-start identifier-following*
       identifier-start : [_a-zA-Z] | non-ascii-or-c1 | escape
       identifier-following : [_a-zA-Z0-9-] | non-ascii-or-c1 | escape
       non-ascii-or-c1 : [^\0-\237]         escape : '\\' char
     value: a quoted string denotes its characters with every escape replaced by the escaped character; an
       unquoted string denotes its identifiers (escapes replaced) joined by one SPACE; an unquoted string that is
       literally a <generic-family-name> token denotes the generic family.

   <position> (10.3.27) components separated by <lwsp>
       offset-position-h | edge-keyword-v | offset-position-h offset-position-v
       | position-keyword-v position-keyword-h | position-keyword-h edge-offset-v | position-keyword-v edge-offset-h
       | edge-offset-h position-keyword-v | edge-offset-v position-keyword-h
       | edge-offset-h edge-offset-v | edge-offset-v edge-offset-h
       offset-position-h : position-keyword-h | <length>     offset-position-v : position-keyword-v | <length>
       edge-offset-h : edge-keyword-h <lwsp> <length>         edge-offset-v : edge-keyword-v <lwsp> <length>
       position-keyword-h : "center" | edge-keyword-h         position-keyword-v : "center" | edge-keyword-v
       edge-keyword-h : "left" | "right"                      edge-keyword-v : "top" | "bottom"
     value: the equivalent four-component form (missing axis: center; center = 50% from left / top; a bare keyword
       edge = 0% from that edge; a bare length = offset from left / top).

   <lwsp> : ( ' ' | '\t' | '\n' | '\r' )+                                                                       *)
EXTENDS Integers, Sequences, FiniteSets

-----------------------------------------------------------------------------
(* 0. characters (code points) *)
Digit    == 48..57
HexDigit == Digit \cup (65..70) \cup (97..102)
Letter   == (65..90) \cup (97..122)
LwspCh   == {32, 9, 10, 13}
DVal(c)  == c - 48
HVal(c)  == IF c \in Digit THEN c - 48 ELSE IF c \in 65..70 THEN c - 55 ELSE c - 87

PLUS == 43   MINUS == 45   DOT == 46   COLON == 58   COMMA == 44   HASH == 35   LPAR == 40   RPAR == 41
PCT == 37    DQUOTE == 34  SQUOTE == 39   BSLASH == 92   USCORE == 95   SPACE == 32
\* lower-case letters by name, so that keywords stay readable: <<L.l, L.e, L.f, L.t>> is "left"
L == [a |-> 97, b |-> 98, c |-> 99, d |-> 100, e |-> 101, f |-> 102, g |-> 103, h |-> 104, i |-> 105, j |-> 106,
      k |-> 107, l |-> 108, m |-> 109, n |-> 110, o |-> 111, p |-> 112, q |-> 113, r |-> 114, s |-> 115, t |-> 116,
      u |-> 117, v |-> 118, w |-> 119, x |-> 120, y |-> 121, z |-> 122]
UC_S == 83

-----------------------------------------------------------------------------
(* 1. helpers: scanning, bounded integers, exact rationals within 32 bits *)
MaxInt == 2147483647
Abs(x) == IF x < 0 THEN -x ELSE x
Min2(a, b) == IF a < b THEN a ELSE b

RECURSIVE RunEnd(_, _, _)
\* first index >= i whose character is not in P (Len(s) + 1 when the run reaches the end)
RunEnd(s, i, P) == IF i > Len(s) THEN i ELSE IF s[i] \in P THEN RunEnd(s, i + 1, P) ELSE i
DigitsEnd(s, i) == RunEnd(s, i, Digit)
IsAt(s, i, c) == i >= 1 /\ i <= Len(s) /\ s[i] = c
DigitAt(s, i) == i >= 1 /\ i <= Len(s) /\ s[i] \in Digit
AllZero(s, i, j) == \A k \in i..(j - 1) : s[k] = 48
Sub(s, i, j) == IF j < i THEN <<>> ELSE SubSeq(s, i, j)          \* s[i..j]
IsPrefix(p, w) == Len(p) <= Len(w) /\ \A k \in 1..Len(p) : p[k] = w[k]
PrefixOfSome(p, W) == \E w \in W : IsPrefix(p, w)

RECURSIVE NumSatFrom(_, _, _, _)
\* value of the digits s[i..j-1], saturating near 10^9: exact below 10^8, and monotone - enough for range tests
NumSatFrom(s, i, j, acc) == IF i >= j THEN acc
                            ELSE NumSatFrom(s, i + 1, j, IF acc >= 100000000 THEN acc ELSE acc * 10 + DVal(s[i]))
NumSat(s, i, j) == NumSatFrom(s, i, j, 0)

RECURSIVE NumXFrom(_, _, _, _)
\* exact value of the digits s[i..j-1], or -1 when it needs more than 9 significant digits
NumXFrom(s, i, j, acc) == IF i >= j THEN acc
                          ELSE IF acc > 99999999 THEN -1
                          ELSE NumXFrom(s, i + 1, j, acc * 10 + DVal(s[i]))
NumX(s, i, j) == NumXFrom(s, i, j, 0)

Pow10(k) == CASE k = 0 -> 1 [] k = 1 -> 10 [] k = 2 -> 100 [] k = 3 -> 1000 [] k = 4 -> 10000 [] k = 5 -> 100000
              [] k = 6 -> 1000000 [] k = 7 -> 10000000 [] k = 8 -> 100000000 [] k = 9 -> 1000000000 [] OTHER -> 0

RECURSIVE Gcd(_, _)
Gcd(a, b) == IF b = 0 THEN a ELSE Gcd(b, a % b)

\* rationals <<n, d>>, d > 0, lowest terms; Poison = not representable in 32-bit arithmetic (never a verdict)
Poison == <<0, 0>>
IsPoison(r) == r[2] = 0
Norm(n, d) == LET g == Gcd(Abs(n), d) IN <<n \div g, d \div g>>
MulOk(a, b) == a = 0 \/ b = 0 \/ Abs(a) <= MaxInt \div Abs(b)
RMul(x, y) ==
  IF IsPoison(x) \/ IsPoison(y) THEN Poison
  ELSE LET g1 == Gcd(Abs(x[1]), y[2])
           g2 == Gcd(Abs(y[1]), x[2])
           a == x[1] \div g1   b == y[1] \div g2
           c == x[2] \div g2   d == y[2] \div g1
       IN  IF MulOk(a, b) /\ MulOk(c, d) THEN Norm(a * b, c * d) ELSE Poison
RAdd(x, y) ==
  IF IsPoison(x) \/ IsPoison(y) THEN Poison
  ELSE LET g == Gcd(x[2], y[2])
           p == y[2] \div g
           q == x[2] \div g
       IN  IF MulOk(x[1], p) /\ MulOk(y[1], q) /\ MulOk(x[2], p)
           THEN LET a == x[1] * p   b == y[1] * q
                IN  IF Abs(a) <= MaxInt - Abs(b) THEN Norm(a + b, x[2] * p) ELSE Poison
           ELSE Poison
RInt(n) == IF n < 0 THEN Poison ELSE <<n, 1>>               \* n = -1 encodes an overflowing digit string
RNeg(x) == IF IsPoison(x) THEN x ELSE <<-x[1], x[2]>>

\* the decimal number whose integer digits are s[i..j-1] and whose fraction digits are s[p..q-1] (p = q: none)
Decimal(s, i, j, p, q) ==
  LET k == q - p
      ip == NumX(s, i, j)
      all == IF k = 0 THEN ip ELSE NumXFrom(s, p, q, ip)       \* the digits read as one integer
  IN  IF k > 9 \/ ip < 0 \/ all < 0 THEN Poison ELSE Norm(all, Pow10(k))

\* results
Res(v) == [ok |-> TRUE, j |-> TRUE, v |-> v]
Rej == [ok |-> FALSE, j |-> TRUE, v |-> <<>>]
NotJudged == [ok |-> FALSE, j |-> FALSE, v |-> <<>>]

\* state of a character-level machine: kind, a small number, a short string; Dead is absorbing
St(k, v, p) == [k |-> k, v |-> v, p |-> p]
S0(k) == St(k, 0, <<>>)
Dead == S0("DEAD")

-----------------------------------------------------------------------------
(* 2. <timeExpression>.  ctx = [F, mn, md, tick, S]: ttp:frameRate, ttp:frameRateMultiplier mn/md, ttp:tickRate,
      ttp:subFrameRate *)
EffRate(ctx) == Norm(ctx.F * ctx.mn, ctx.md)
RInv(x) == <<x[2], x[1]>>
MetricH == <<L.h>>   MetricM == <<L.m>>   MetricS == <<L.s>>   MetricMS == <<L.m, L.s>>   MetricF == <<L.f>>   MetricT == <<L.t>>
Metrics == {MetricH, MetricM, MetricS, MetricMS, MetricF, MetricT}
MetricFactor(mt, ctx) ==
  CASE mt = MetricH -> <<3600, 1>> [] mt = MetricM -> <<60, 1>> [] mt = MetricS -> <<1, 1>>
    [] mt = MetricMS -> <<1, 1000>> [] mt = MetricF -> RInv(EffRate(ctx)) [] mt = MetricT -> <<1, ctx.tick>>

\* (B) offset-time : time-count fraction? metric      -- a = end of the leading digit run (a > 1)
ParseOffset(s, a, ctx) ==
  LET n == Len(s)
      hasF == IsAt(s, a, DOT)
      b == IF hasF THEN DigitsEnd(s, a + 1) ELSE a
      mt == Sub(s, b, n)
  IN  IF hasF /\ b = a + 1 THEN Rej                                    \* fraction : "." <digit>+
      ELSE IF mt \notin Metrics THEN Rej
      ELSE Res(RMul(Decimal(s, 1, a, IF hasF THEN a + 1 ELSE a, b), MetricFactor(mt, ctx)))

\* (B) clock-time -- a = index of the first ":" = end of the hours digits
ParseClock(s, a, ctx) ==
  LET n == Len(s)
      shape == /\ a - 1 >= 2                                           \* hours : two or more digits
               /\ DigitAt(s, a + 1) /\ DigitAt(s, a + 2) /\ IsAt(s, a + 3, COLON)
               /\ DigitAt(s, a + 4) /\ DigitAt(s, a + 5)
      mm == NumSat(s, a + 1, a + 3)
      ss == NumSat(s, a + 4, a + 6)
      base == RAdd(RMul(RInt(NumX(s, 1, a)), <<3600, 1>>), RInt(60 * mm + ss))
  IN  IF ~shape \/ mm > 59 \/ ss > 60 THEN Rej
      ELSE IF n = a + 5 THEN Res(base)
      ELSE IF s[a + 6] = DOT THEN
             LET e == DigitsEnd(s, a + 7) IN
             IF e = a + 7 \/ e # n + 1 THEN Rej
             ELSE IF ss = 60 /\ ~AllZero(s, a + 7, e) THEN Rej         \* seconds with fraction within [0, 60]
             ELSE Res(RAdd(base, Decimal(s, e, e, a + 7, e)))
      ELSE IF s[a + 6] = COLON THEN
             LET e == DigitsEnd(s, a + 7)
                 fr == NumSat(s, a + 7, e)
                 fsec == RMul(RInt(fr), RInv(EffRate(ctx)))
             IN  IF e - (a + 7) < 2 \/ fr >= ctx.F THEN Rej            \* frames : two or more digits, below F
                 ELSE IF e = n + 1 THEN Res(RAdd(base, fsec))
                 ELSE IF s[e] = DOT THEN
                        LET g == DigitsEnd(s, e + 1)
                            sub == NumSat(s, e + 1, g)
                        IN  IF g = e + 1 \/ g # n + 1 \/ sub >= ctx.S THEN Rej
                            ELSE Res(RAdd(base, RMul(RAdd(RInt(fr), <<sub, ctx.S>>), RInv(EffRate(ctx)))))
                 ELSE Rej
      ELSE Rej

ParseTime(s, ctx) ==
  LET a == DigitsEnd(s, 1) IN
  IF a = 1 \/ a > Len(s) THEN Rej                                      \* both forms begin with a digit and go on
  ELSE IF s[a] = COLON THEN ParseClock(s, a, ctx)
  ELSE ParseOffset(s, a, ctx)

\* (A) the machine.  N(v): v = 1, 2 digits read so far (2 = two or more)
TimeStart == S0("T0")
TimeStep(q, c, ctx) ==
  LET isd == c \in Digit
      metric == IF c = L.m THEN S0("OM") ELSE IF c \in {L.h, L.s, L.f, L.t} THEN S0("END") ELSE Dead
  IN
  CASE q.k = "T0"   -> IF isd THEN St("N", 1, <<>>) ELSE Dead
    [] q.k = "N"    -> IF isd THEN St("N", 2, <<>>)
                       ELSE IF c = DOT THEN S0("OF0")
                       ELSE IF c = COLON THEN (IF q.v = 2 THEN S0("M0") ELSE Dead)
                       ELSE metric
    [] q.k = "OF0"  -> IF isd THEN S0("OF") ELSE Dead
    [] q.k = "OF"   -> IF isd THEN q ELSE metric
    [] q.k = "OM"   -> IF c = L.s THEN S0("END") ELSE Dead              \* "m" may become "ms"
    [] q.k = "END"  -> Dead
    [] q.k = "M0"   -> IF isd THEN St("M1", DVal(c), <<>>) ELSE Dead
    [] q.k = "M1"   -> IF isd /\ 10 * q.v + DVal(c) <= 59 THEN S0("M2") ELSE Dead
    [] q.k = "M2"   -> IF c = COLON THEN S0("S0") ELSE Dead
    [] q.k = "S0"   -> IF isd THEN St("S1", DVal(c), <<>>) ELSE Dead
    [] q.k = "S1"   -> IF isd /\ 10 * q.v + DVal(c) <= 60
                       THEN St("S2", IF 10 * q.v + DVal(c) = 60 THEN 1 ELSE 0, <<>>) ELSE Dead
    [] q.k = "S2"   -> IF c = DOT THEN St("SF0", q.v, <<>>) ELSE IF c = COLON THEN S0("F0") ELSE Dead
    [] q.k \in {"SF0", "SF"} -> IF isd /\ (q.v = 0 \/ c = 48) THEN St("SF", q.v, <<>>) ELSE Dead
    [] q.k = "F0"   -> IF isd /\ DVal(c) < ctx.F THEN St("F1", DVal(c), <<>>) ELSE Dead
    [] q.k \in {"F1", "F2"} -> IF isd /\ 10 * q.v + DVal(c) < ctx.F THEN St("F2", 10 * q.v + DVal(c), <<>>)
                               ELSE IF q.k = "F2" /\ c = DOT THEN S0("SUB0") ELSE Dead
    [] q.k \in {"SUB0", "SUB"} -> IF isd /\ 10 * q.v + DVal(c) < ctx.S THEN St("SUB", 10 * q.v + DVal(c), <<>>) ELSE Dead
    [] OTHER -> Dead
TimeAccepting(q) == q.k \in {"OM", "END", "S2", "SF", "F2", "SUB"}

-----------------------------------------------------------------------------
(* 3. <length> *)
UnitPx == <<L.p, L.x>>   UnitEm == <<L.e, L.m>>   UnitC == <<L.c>>   UnitPct == <<PCT>>   UnitRh == <<L.r, L.h>>   UnitRw == <<L.r, L.w>>
Units == {UnitPx, UnitEm, UnitC, UnitPct, UnitRh, UnitRw}
UnitName(u) == CASE u = UnitPx -> "px" [] u = UnitEm -> "em" [] u = UnitC -> "c" [] u = UnitPct -> "%"
                 [] u = UnitRh -> "rh" [] u = UnitRw -> "rw"

\* (B) sign? ( <digit>+ | <digit>* "." <digit>+ ) units
ParseLength(s) ==
  LET n == Len(s)
      sg == IF IsAt(s, 1, PLUS) \/ IsAt(s, 1, MINUS) THEN 1 ELSE 0
      i0 == 1 + sg
      a == DigitsEnd(s, i0)
      hasF == IsAt(s, a, DOT)
      b == IF hasF THEN DigitsEnd(s, a + 1) ELSE a
      u == Sub(s, b, n)
      num == Decimal(s, i0, a, IF hasF THEN a + 1 ELSE a, b)
      val == IF sg = 1 /\ s[1] = MINUS THEN RNeg(num) ELSE num
  IN  IF hasF /\ b = a + 1 THEN Rej                    \* "." must be followed by a digit
      ELSE IF ~hasF /\ a = i0 THEN Rej                 \* no digit at all
      ELSE IF u \notin Units THEN Rej
      ELSE Res(<<val[1], val[2], UnitName(u)>>)

\* (A)
LengthStart == S0("L0")
LengthStep(q, c) ==
  LET isd == c \in Digit
      unit == IF c \in {L.c, PCT} THEN S0("END") ELSE IF c \in {L.p, L.e, L.r} THEN St("U", c, <<>>) ELSE Dead
  IN
  CASE q.k = "L0"  -> IF c \in {PLUS, MINUS} THEN S0("L1") ELSE IF isd THEN S0("LI") ELSE IF c = DOT THEN S0("LF0") ELSE Dead
    [] q.k = "L1"  -> IF isd THEN S0("LI") ELSE IF c = DOT THEN S0("LF0") ELSE Dead
    [] q.k = "LI"  -> IF isd THEN q ELSE IF c = DOT THEN S0("LF0") ELSE unit
    [] q.k = "LF0" -> IF isd THEN S0("LF") ELSE Dead
    [] q.k = "LF"  -> IF isd THEN q ELSE unit
    [] q.k = "U"   -> IF \/ q.v = L.p /\ c = L.x
                         \/ q.v = L.e /\ c = L.m
                         \/ q.v = L.r /\ c \in {L.h, L.w} THEN S0("END") ELSE Dead
    [] OTHER -> Dead
LengthAccepting(q) == q.k = "END"

-----------------------------------------------------------------------------
(* 4. white-space separated components (used by <position> and by the parameter attributes) *)
RECURSIVE SplitFrom(_, _, _, _)
\* components of s separated by runs of LWSP; "" components mark a leading / trailing separator: <<>> entries
SplitFrom(s, i, cur, acc) ==
  IF i > Len(s) THEN Append(acc, cur)
  ELSE IF s[i] \in LwspCh
       THEN LET e == RunEnd(s, i, LwspCh) IN SplitFrom(s, e, <<>>, Append(acc, cur))
       ELSE SplitFrom(s, i + 1, Append(cur, s[i]), acc)
\* <<>> for the empty string; a leading or trailing LWSP run yields an empty first / last component
Components(s) == IF s = <<>> THEN <<>> ELSE SplitFrom(s, 1, <<>>, <<>>)

-----------------------------------------------------------------------------
(* 5. <color> *)
Named == [
  transparent |-> <<0, 0, 0, 0>>,     black   |-> <<0, 0, 0, 255>>,       silver |-> <<192, 192, 192, 255>>,
  gray    |-> <<128, 128, 128, 255>>, white   |-> <<255, 255, 255, 255>>, maroon |-> <<128, 0, 0, 255>>,
  red     |-> <<255, 0, 0, 255>>,     purple  |-> <<128, 0, 128, 255>>,   fuchsia |-> <<255, 0, 255, 255>>,
  magenta |-> <<255, 0, 255, 255>>,   green   |-> <<0, 128, 0, 255>>,     lime   |-> <<0, 255, 0, 255>>,
  olive   |-> <<128, 128, 0, 255>>,   yellow  |-> <<255, 255, 0, 255>>,   navy   |-> <<0, 0, 128, 255>>,
  blue    |-> <<0, 0, 255, 255>>,     teal    |-> <<0, 128, 128, 255>>,   aqua   |-> <<0, 255, 255, 255>>,
  cyan    |-> <<0, 255, 255, 255>>]
NameCps == [
  transparent |-> <<L.t, L.r, L.a, L.n, L.s, L.p, L.a, L.r, L.e, L.n, L.t>>, black |-> <<L.b, L.l, L.a, L.c, L.k>>,
  silver |-> <<L.s, L.i, L.l, L.v, L.e, L.r>>, gray |-> <<L.g, L.r, L.a, L.y>>, white |-> <<L.w, L.h, L.i, L.t, L.e>>,
  maroon |-> <<L.m, L.a, L.r, L.o, L.o, L.n>>, red |-> <<L.r, L.e, L.d>>, purple |-> <<L.p, L.u, L.r, L.p, L.l, L.e>>,
  fuchsia |-> <<L.f, L.u, L.c, L.h, L.s, L.i, L.a>>, magenta |-> <<L.m, L.a, L.g, L.e, L.n, L.t, L.a>>,
  green |-> <<L.g, L.r, L.e, L.e, L.n>>, lime |-> <<L.l, L.i, L.m, L.e>>, olive |-> <<L.o, L.l, L.i, L.v, L.e>>,
  yellow |-> <<L.y, L.e, L.l, L.l, L.o, L.w>>, navy |-> <<L.n, L.a, L.v, L.y>>, blue |-> <<L.b, L.l, L.u, L.e>>,
  teal |-> <<L.t, L.e, L.a, L.l>>, aqua |-> <<L.a, L.q, L.u, L.a>>, cyan |-> <<L.c, L.y, L.a, L.n>>]
ColourNames == DOMAIN NameCps
NamedWords == {NameCps[nm] : nm \in ColourNames}
RgbOpen  == <<L.r, L.g, L.b, LPAR>>
RgbaOpen == <<L.r, L.g, L.b, L.a, LPAR>>

RECURSIVE CompsFrom(_, _, _, _)
\* (B) component ("," component)* ")" from index i: the sequence of component values, or <<-1>> on a syntax error
CompsFrom(s, i, want, acc) ==
  LET e == DigitsEnd(s, i)
      v == NumSat(s, i, e)
  IN  IF e = i \/ v > 255 THEN <<-1>>
      ELSE IF want = 1 THEN (IF IsAt(s, e, RPAR) /\ e = Len(s) THEN Append(acc, v) ELSE <<-1>>)
      ELSE IF IsAt(s, e, COMMA) THEN CompsFrom(s, e + 1, want - 1, Append(acc, v))
      ELSE <<-1>>

ParseColour(s) ==
  LET n == Len(s) IN
  IF n = 0 THEN Rej
  ELSE IF s[1] = HASH THEN
    IF n \in {7, 9} /\ (\A k \in 2..n : s[k] \in HexDigit)
    THEN LET h(k) == 16 * HVal(s[k]) + HVal(s[k + 1])
         IN  Res(<<h(2), h(4), h(6), IF n = 9 THEN h(8) ELSE 255>>)
    ELSE Rej
  ELSE IF IsPrefix(RgbaOpen, s) THEN
    LET cs == CompsFrom(s, 6, 4, <<>>) IN IF cs = <<-1>> THEN Rej ELSE Res(cs)
  ELSE IF IsPrefix(RgbOpen, s) THEN
    LET cs == CompsFrom(s, 5, 3, <<>>) IN IF cs = <<-1>> THEN Rej ELSE Res(Append(cs, 255))
  ELSE IF \E nm \in ColourNames : NameCps[nm] = s
    THEN Res(Named[CHOOSE nm \in ColourNames : NameCps[nm] = s])
  ELSE Rej

\* (A) HX(v): v hex digits read; KW(p): p is a proper prefix of a keyword; RC(v, p): p = <<components wanted,
\*     components closed>>, v = value of the component being read or -1 before its first digit
ColourWords == NamedWords \cup {RgbOpen, RgbaOpen}
ColourStart == S0("C0")
ColourStep(q, c) ==
  LET kw(p) == IF p = RgbOpen THEN St("RC", -1, <<3, 0>>)
               ELSE IF p = RgbaOpen THEN St("RC", -1, <<4, 0>>)
               ELSE IF PrefixOfSome(p, ColourWords) THEN St("KW", 0, p) ELSE Dead
  IN
  CASE q.k = "C0" -> IF c = HASH THEN St("HX", 0, <<>>) ELSE kw(<<c>>)
    [] q.k = "HX" -> IF c \in HexDigit /\ q.v < 8 THEN St("HX", q.v + 1, <<>>) ELSE Dead
    [] q.k = "KW" -> kw(Append(q.p, c))
    [] q.k = "RC" -> IF c \in Digit
                     THEN LET v == IF q.v < 0 THEN DVal(c) ELSE 10 * q.v + DVal(c)
                          IN  IF v <= 255 THEN St("RC", v, q.p) ELSE Dead
                     ELSE IF c = COMMA /\ q.v >= 0 /\ q.p[2] + 1 < q.p[1] THEN St("RC", -1, <<q.p[1], q.p[2] + 1>>)
                     ELSE IF c = RPAR /\ q.v >= 0 /\ q.p[2] + 1 = q.p[1] THEN S0("END")
                     ELSE Dead
    [] OTHER -> Dead
ColourAccepting(q) == \/ q.k = "END"
                      \/ q.k = "HX" /\ q.v \in {6, 8}
                      \/ q.k = "KW" /\ q.p \in NamedWords

-----------------------------------------------------------------------------
(* 6. <font-families> *)
IdentStart(c) == c \in Letter \/ c = USCORE \/ c > 159
IdentFollow(c) == IdentStart(c) \/ c \in Digit \/ c = MINUS
GenSerif == <<L.s, L.e, L.r, L.i, L.f>>
GenSans == <<L.s, L.a, L.n, L.s, UC_S, L.e, L.r, L.i, L.f>>
GenMono == <<L.m, L.o, L.n, L.o, L.s, L.p, L.a, L.c, L.e>>
GenProp == <<L.p, L.r, L.o, L.p, L.o, L.r, L.t, L.i, L.o, L.n, L.a, L.l>>
Cap(w) == <<w[1] - 32>> \o Tail(w)                       \* sansSerif -> SansSerif inside a compound name
GenericNames == {<<L.d, L.e, L.f, L.a, L.u, L.l, L.t>>, GenMono, GenSans, GenSerif,
                 GenMono \o Cap(GenSans), GenMono \o Cap(GenSerif), GenProp \o Cap(GenSans), GenProp \o Cap(GenSerif)}

\* (B) scanners return <<chars, next index, number of escapes>>; next index 0 = syntax error
RECURSIVE IdentFrom(_, _, _, _, _)
\* identifier-following* from i (first = TRUE: an identifier-start is required at i)
IdentFrom(s, i, first, acc, esc) ==
  IF i > Len(s) THEN (IF first THEN <<acc, 0, esc>> ELSE <<acc, i, esc>>)
  ELSE IF s[i] = BSLASH THEN (IF i + 1 > Len(s) THEN <<acc, 0, esc>>
                              ELSE IdentFrom(s, i + 2, FALSE, Append(acc, s[i + 1]), esc + 1))
  ELSE IF (first /\ IdentStart(s[i])) \/ (~first /\ IdentFollow(s[i])) THEN IdentFrom(s, i + 1, FALSE, Append(acc, s[i]), esc)
  ELSE IF first THEN <<acc, 0, esc>> ELSE <<acc, i, esc>>
Ident(s, i) == IF IsAt(s, i, MINUS) THEN IdentFrom(s, i + 1, TRUE, <<MINUS>>, 0) ELSE IdentFrom(s, i, TRUE, <<>>, 0)
BeginsIdent(s, i) == i <= Len(s) /\ (s[i] = MINUS \/ s[i] = BSLASH \/ IdentStart(s[i]))

RECURSIVE UnquotedFrom(_, _, _, _)
\* identifier ( lwsp identifier )* : the identifiers joined by one SPACE
UnquotedFrom(s, i, acc, esc) ==
  LET id == Ident(s, i) IN
  IF id[2] = 0 THEN <<acc, 0, esc>>
  ELSE LET name == IF acc = <<>> THEN id[1] ELSE acc \o <<SPACE>> \o id[1]
           w == RunEnd(s, id[2], LwspCh)
       IN  IF w > id[2] /\ BeginsIdent(s, w) THEN UnquotedFrom(s, w, name, esc + id[3])
           ELSE <<name, id[2], esc + id[3]>>

RECURSIVE QuotedFrom(_, _, _, _)
\* ( [^q\\] | escape )+ q  from i (just after the opening delimiter q)
QuotedFrom(s, i, qt, acc) ==
  IF i > Len(s) THEN <<acc, 0, 0>>
  ELSE IF s[i] = qt THEN (IF acc = <<>> THEN <<acc, 0, 0>> ELSE <<acc, i + 1, 0>>)
  ELSE IF s[i] = BSLASH THEN (IF i + 1 > Len(s) THEN <<acc, 0, 0>> ELSE QuotedFrom(s, i + 2, qt, Append(acc, s[i + 1])))
  ELSE QuotedFrom(s, i + 1, qt, Append(acc, s[i]))

RECURSIVE FamiliesFrom(_, _, _, _)
\* font-family (<lwsp>? "," <lwsp>? font-family)* ; judged = FALSE when an escaped spelling of a generic name occurs
FamiliesFrom(s, i, acc, judged) ==
  IF i > Len(s) THEN Rej
  ELSE LET quoted == s[i] \in {DQUOTE, SQUOTE}
           f == IF quoted THEN QuotedFrom(s, i + 1, s[i], <<>>) ELSE UnquotedFrom(s, i, <<>>, 0)
       IN  IF f[2] = 0 THEN Rej
           ELSE LET gen == ~quoted /\ f[1] \in GenericNames
                    fam == <<IF gen /\ f[3] = 0 THEN 1 ELSE 0, f[1], IF quoted THEN 1 ELSE 0>>
                    jd == judged /\ ~(gen /\ f[3] > 0)
                    w == RunEnd(s, f[2], LwspCh)
                IN  IF f[2] > Len(s) THEN [ok |-> TRUE, j |-> jd, v |-> Append(acc, fam)]
                    ELSE IF IsAt(s, w, COMMA) THEN FamiliesFrom(s, RunEnd(s, w + 1, LwspCh), Append(acc, fam), jd)
                    ELSE Rej
ParseFont(s) == FamiliesFrom(s, 1, <<>>, TRUE)

\* (A)
FontStart == S0("F0")
FontStep(q, c) ==
  LET begin == IF c = DQUOTE THEN S0("DQ0") ELSE IF c = SQUOTE THEN S0("SQ0")
               ELSE IF c = MINUS THEN S0("IDD") ELSE IF c = BSLASH THEN S0("IDE")
               ELSE IF IdentStart(c) THEN S0("ID") ELSE Dead
      quotedStep(open, in, escp, qt) ==
        IF c = qt THEN (IF q.k = open THEN Dead ELSE S0("QEND"))
        ELSE IF c = BSLASH THEN S0(escp) ELSE S0(in)
  IN
  CASE q.k = "F0"  -> begin
    [] q.k = "FC"  -> IF c \in LwspCh THEN q ELSE begin                  \* after "," : <lwsp>? font-family
    [] q.k = "IDD" -> IF c = BSLASH THEN S0("IDE") ELSE IF IdentStart(c) THEN S0("ID") ELSE Dead
    [] q.k = "IDE" -> S0("ID")                                           \* escape : '\\' char
    [] q.k = "ID"  -> IF c = BSLASH THEN S0("IDE") ELSE IF IdentFollow(c) THEN q
                      ELSE IF c \in LwspCh THEN S0("IDW") ELSE IF c = COMMA THEN S0("FC") ELSE Dead
    [] q.k = "IDW" -> IF c \in LwspCh THEN q ELSE IF c = COMMA THEN S0("FC")
                      ELSE IF c \in {DQUOTE, SQUOTE} THEN Dead ELSE begin \* next identifier of the same name
    [] q.k \in {"DQ0", "DQ"} -> quotedStep("DQ0", "DQ", "DQE", DQUOTE)
    [] q.k = "DQE" -> S0("DQ")
    [] q.k \in {"SQ0", "SQ"} -> quotedStep("SQ0", "SQ", "SQE", SQUOTE)
    [] q.k = "SQE" -> S0("SQ")
    [] q.k \in {"QEND", "QW"} -> IF c \in LwspCh THEN S0("QW") ELSE IF c = COMMA THEN S0("FC") ELSE Dead
    [] OTHER -> Dead
FontAccepting(q) == q.k \in {"ID", "QEND"}

\* a serialisation that is in the language for every list of non-empty names: always quote, escape '\' and '"'
RECURSIVE EscapeFrom(_, _)
EscapeFrom(nm, i) == IF i > Len(nm) THEN <<>>
                     ELSE (IF nm[i] \in {BSLASH, DQUOTE} THEN <<BSLASH, nm[i]>> ELSE <<nm[i]>>) \o EscapeFrom(nm, i + 1)
SerOne(fam) == IF fam[1] = 1 THEN fam[2] ELSE <<DQUOTE>> \o EscapeFrom(fam[2], 1) \o <<DQUOTE>>
RECURSIVE SerFrom(_, _)
SerFrom(fams, i) == IF i > Len(fams) THEN <<>>
                    ELSE (IF i = 1 THEN <<>> ELSE <<COMMA, SPACE>>) \o SerOne(fams[i]) \o SerFrom(fams, i + 1)
SerializeFont(fams) == SerFrom(fams, 1)

-----------------------------------------------------------------------------
(* 7. <position> *)
KwLeft == <<L.l, L.e, L.f, L.t>>   KwRight == <<L.r, L.i, L.g, L.h, L.t>>   KwTop == <<L.t, L.o, L.p>>
KwBottom == <<L.b, L.o, L.t, L.t, L.o, L.m>>   KwCenter == <<L.c, L.e, L.n, L.t, L.e, L.r>>
\* component kinds: "H" edge-keyword-h, "V" edge-keyword-v, "C" center, "L" <length>, "X" anything else
CompKind(w) == IF w \in {KwLeft, KwRight} THEN "H" ELSE IF w \in {KwTop, KwBottom} THEN "V"
               ELSE IF w = KwCenter THEN "C" ELSE IF ParseLength(w).ok THEN "L" ELSE "X"
EdgeName(w) == CASE w = KwLeft -> "left" [] w = KwRight -> "right" [] w = KwTop -> "top" [] w = KwBottom -> "bottom"
Kinds(ws) == [k \in 1..Len(ws) |-> CompKind(ws[k])]

\* (A) the productions, one set of kind sequences each
OffPosH == {"C", "H", "L"}   OffPosV == {"C", "V", "L"}   PosKwH == {"C", "H"}   PosKwV == {"C", "V"}
PositionShapes ==
  {<<a>> : a \in OffPosH} \cup {<<"V">>}
  \cup {<<a, b>> : a \in OffPosH, b \in OffPosV}
  \cup {<<a, b>> : a \in PosKwV, b \in PosKwH}
  \cup {<<a, "V", "L">> : a \in PosKwH} \cup {<<a, "H", "L">> : a \in PosKwV}
  \cup {<<"H", "L", a>> : a \in PosKwV} \cup {<<"V", "L", a>> : a \in PosKwH}
  \cup {<<"H", "L", "V", "L">>, <<"V", "L", "H", "L">>}
PositionAcceptsComps(ws) == Kinds(ws) \in PositionShapes

\* (B) the equivalent four-component value, axis by axis
Pct(n) == <<n, 1, "%">>
LenOf(w) == ParseLength(w).v
HAxis(w) == CASE CompKind(w) = "C" -> <<"left", Pct(50)>> [] CompKind(w) = "H" -> <<EdgeName(w), Pct(0)>>
              [] CompKind(w) = "L" -> <<"left", LenOf(w)>>
VAxis(w) == CASE CompKind(w) = "C" -> <<"top", Pct(50)>> [] CompKind(w) = "V" -> <<EdgeName(w), Pct(0)>>
              [] CompKind(w) = "L" -> <<"top", LenOf(w)>>
PosVal(h, v) == Res(<<h[1], h[2], v[1], v[2]>>)
PositionOfComps(ws) ==
  LET k == Kinds(ws)
      n == Len(ws)
      centre == KwCenter
  IN
  IF n = 1 THEN
    IF k[1] \in OffPosH THEN PosVal(HAxis(ws[1]), VAxis(centre))
    ELSE IF k[1] = "V" THEN PosVal(HAxis(centre), VAxis(ws[1]))
    ELSE Rej
  ELSE IF n = 2 THEN
    IF k[1] \in OffPosH /\ k[2] \in OffPosV THEN PosVal(HAxis(ws[1]), VAxis(ws[2]))
    ELSE IF k[1] \in PosKwV /\ k[2] \in PosKwH THEN PosVal(HAxis(ws[2]), VAxis(ws[1]))
    ELSE Rej
  ELSE IF n = 3 THEN
    IF k[1] \in PosKwH /\ k[2] = "V" /\ k[3] = "L" THEN PosVal(HAxis(ws[1]), <<EdgeName(ws[2]), LenOf(ws[3])>>)
    ELSE IF k[1] \in PosKwV /\ k[2] = "H" /\ k[3] = "L" THEN PosVal(<<EdgeName(ws[2]), LenOf(ws[3])>>, VAxis(ws[1]))
    ELSE IF k[1] = "H" /\ k[2] = "L" /\ k[3] \in PosKwV THEN PosVal(<<EdgeName(ws[1]), LenOf(ws[2])>>, VAxis(ws[3]))
    ELSE IF k[1] = "V" /\ k[2] = "L" /\ k[3] \in PosKwH THEN PosVal(HAxis(ws[3]), <<EdgeName(ws[1]), LenOf(ws[2])>>)
    ELSE Rej
  ELSE IF n = 4 THEN
    IF k = <<"H", "L", "V", "L">> THEN PosVal(<<EdgeName(ws[1]), LenOf(ws[2])>>, <<EdgeName(ws[3]), LenOf(ws[4])>>)
    ELSE IF k = <<"V", "L", "H", "L">> THEN PosVal(<<EdgeName(ws[3]), LenOf(ws[4])>>, <<EdgeName(ws[1]), LenOf(ws[2])>>)
    ELSE Rej
  ELSE Rej
\* no leading / trailing LWSP: no empty component
ParsePosition(s) == LET ws == Components(s) IN
                    IF ws = <<>> \/ \E k \in 1..Len(ws) : ws[k] = <<>> THEN Rej ELSE PositionOfComps(ws)
PositionAccepts(s) == LET ws == Components(s) IN
                      ws # <<>> /\ (\A k \in 1..Len(ws) : ws[k] # <<>>) /\ PositionAcceptsComps(ws)

\* the four-component rendering of an accepted component list (lengths keep their own spelling)
Pct0 == <<48, PCT>>    Pct50 == <<53, 48, PCT>>
EdgeWord(e) == CASE e = "left" -> KwLeft [] e = "right" -> KwRight [] e = "top" -> KwTop [] e = "bottom" -> KwBottom
PositionCanon(ws) ==
  LET k == Kinds(ws)
      n == Len(ws)
      h(w) == IF CompKind(w) = "C" THEN <<KwLeft, Pct50>> ELSE IF CompKind(w) = "H" THEN <<w, Pct0>> ELSE <<KwLeft, w>>
      v(w) == IF CompKind(w) = "C" THEN <<KwTop, Pct50>> ELSE IF CompKind(w) = "V" THEN <<w, Pct0>> ELSE <<KwTop, w>>
  IN
  IF n = 1 THEN (IF k[1] = "V" THEN h(KwCenter) \o v(ws[1]) ELSE h(ws[1]) \o v(KwCenter))
  ELSE IF n = 2 THEN (IF k[1] \in OffPosH /\ k[2] \in OffPosV THEN h(ws[1]) \o v(ws[2]) ELSE h(ws[2]) \o v(ws[1]))
  ELSE IF n = 3 THEN
    (IF k[2] = "L" THEN (IF k[1] = "H" THEN <<ws[1], ws[2]>> \o v(ws[3]) ELSE h(ws[3]) \o <<ws[1], ws[2]>>)
     ELSE (IF k[2] = "V" THEN h(ws[1]) \o <<ws[2], ws[3]>> ELSE <<ws[2], ws[3]>> \o v(ws[1])))
  ELSE (IF k[1] = "H" THEN ws ELSE <<ws[3], ws[4], ws[1], ws[2]>>)

-----------------------------------------------------------------------------
(* 8. parameter attributes (TTML2 7.2, IMSC 1.1 7.x)
      ttp:cellResolution      : columns <lwsp> rows                 columns != 0, rows != 0     v = <<columns, rows>>
      ttp:frameRate           : <digit>+                            value > 0                   v = <<rate>>
      ttp:frameRateMultiplier : numerator <lwsp> denominator        both != 0                   v = <<n, d>> lowest terms
      ttp:tickRate            : <digit>+                            value > 0                   v = <<rate>>
      ittp:aspectRatio, ttp:displayAspectRatio : numerator <lwsp> denominator, both != 0        v = <<n, d>> lowest terms
      tts:extent on tt (IMSC) : <length> <lwsp> <length>, both in px                            v = <<w, h>>
          (zero, negative or fractional pixel counts: not judged; "auto" / "contain": not part of this model)
      ittp:activeArea         : leftOffset <lwsp> topOffset <lwsp> width <lwsp> height, each a <length> in "%"
          within [0, 100]                                          v = four rationals, per cent
      xml:space               : "default" | "preserve"              v = <<0>> | <<1>>
      timeContainer           : "par" | "seq"                       v = <<0>> | <<1>>                                  *)
IsNat(w) == w # <<>> /\ \A k \in 1..Len(w) : w[k] \in Digit
NatOf(w) == NumSat(w, 1, Len(w) + 1)
ExactNat(w) == NumX(w, 1, Len(w) + 1)
Plain(ws, n) == Len(ws) = n /\ \A k \in 1..n : ws[k] # <<>>

\* a component of -1 in the value: more than 9 significant digits (the verdict stands, the value is not compared)
ParseNat(s) == IF IsNat(s) /\ NatOf(s) > 0 THEN Res(<<ExactNat(s)>>) ELSE Rej
ParsePair(s, reduce) ==
  LET ws == Components(s) IN
  IF Plain(ws, 2) /\ IsNat(ws[1]) /\ IsNat(ws[2]) /\ NatOf(ws[1]) > 0 /\ NatOf(ws[2]) > 0
  THEN (IF ExactNat(ws[1]) < 0 \/ ExactNat(ws[2]) < 0 THEN Res(<<-1, -1>>)
        ELSE Res(IF reduce THEN Norm(ExactNat(ws[1]), ExactNat(ws[2])) ELSE <<ExactNat(ws[1]), ExactNat(ws[2])>>))
  ELSE Rej
ParseExtent(s) ==
  LET ws == Components(s) IN
  IF Plain(ws, 2) /\ ParseLength(ws[1]).ok /\ ParseLength(ws[2]).ok
  THEN LET w == LenOf(ws[1])   h == LenOf(ws[2]) IN
       IF w[3] # "px" \/ h[3] # "px" THEN Rej
       ELSE IF w[2] # 1 \/ h[2] # 1 \/ w[1] <= 0 \/ h[1] <= 0 THEN NotJudged      \* also: beyond 32 bits (den = 0)
       ELSE Res(<<w[1], h[1]>>)
  ELSE Rej
InPct(x) == x[2] > 0 /\ x[1] >= 0 /\ (x[1] \div x[2] < 100 \/ (x[1] \div x[2] = 100 /\ x[1] % x[2] = 0))
ParseArea(s) ==
  LET ws == Components(s) IN
  IF Plain(ws, 4) /\ \A k \in 1..4 : ParseLength(ws[k]).ok
  THEN LET x == [k \in 1..4 |-> LenOf(ws[k])] IN
       IF \E k \in 1..4 : x[k][3] # "%" THEN Rej
       ELSE IF \E k \in 1..4 : x[k][2] = 0 THEN NotJudged
       ELSE IF \A k \in 1..4 : InPct(x[k]) THEN Res([k \in 1..4 |-> <<x[k][1], x[k][2]>>])
       ELSE Rej
  ELSE Rej
KwDefault == <<L.d, L.e, L.f, L.a, L.u, L.l, L.t>>    KwPreserve == <<L.p, L.r, L.e, L.s, L.e, L.r, L.v, L.e>>
KwPar == <<L.p, L.a, L.r>>    KwSeq == <<L.s, L.e, L.q>>
ParseEnum(s, w0, w1) == IF s = w0 THEN Res(<<0>>) ELSE IF s = w1 THEN Res(<<1>>) ELSE Rej

\* (A) machines: NAT(v): v = 1 once a non-zero digit was read; PAIR: p = <<component index>>, v as NAT, k = "PD" in
\*     digits / "PW" in the separator; ENUM: the prefix read so far
NatStep(q, c) == CASE q.k \in {"N0", "ND"} -> IF c \in Digit THEN St("ND", IF q.v = 1 \/ c # 48 THEN 1 ELSE 0, <<>>) ELSE Dead
                   [] OTHER -> Dead
NatAccepting(q) == q.k = "ND" /\ q.v = 1
PairStep(q, c) ==
  CASE q.k = "P0" -> IF c \in Digit THEN St("PD", IF c # 48 THEN 1 ELSE 0, <<1>>) ELSE Dead
    [] q.k = "PD" -> IF c \in Digit THEN St("PD", IF q.v = 1 \/ c # 48 THEN 1 ELSE 0, q.p)
                     ELSE IF c \in LwspCh /\ q.p = <<1>> /\ q.v = 1 THEN S0("PW") ELSE Dead
    [] q.k = "PW" -> IF c \in LwspCh THEN q ELSE IF c \in Digit THEN St("PD", IF c # 48 THEN 1 ELSE 0, <<2>>) ELSE Dead
    [] OTHER -> Dead
PairAccepting(q) == q.k = "PD" /\ q.p = <<2>> /\ q.v = 1
EnumStep(q, c, W) == IF q.k = "E" /\ PrefixOfSome(Append(q.p, c), W) THEN St("E", 0, Append(q.p, c)) ELSE Dead
EnumAccepting(q, W) == q.k = "E" /\ q.p \in W

-----------------------------------------------------------------------------
(* 9. dispatch by grammar name *)
CharGrammars == {"time", "length", "colour", "font", "frate", "trate", "cellres", "fmult", "aspect", "dar", "space", "tcont"}
CompGrammars == {"position", "extent", "area"}          \* judged on their components; no character-level machine
Grammars == CharGrammars \cup CompGrammars

Parse(g, s, ctx) ==
  CASE g = "time" -> ParseTime(s, ctx)
    [] g = "length" -> ParseLength(s)
    [] g = "colour" -> ParseColour(s)
    [] g = "font" -> ParseFont(s)
    [] g = "position" -> ParsePosition(s)
    [] g \in {"frate", "trate"} -> ParseNat(s)
    [] g = "cellres" -> ParsePair(s, FALSE)
    [] g \in {"fmult", "aspect", "dar"} -> ParsePair(s, TRUE)
    [] g = "extent" -> ParseExtent(s)
    [] g = "area" -> ParseArea(s)
    [] g = "space" -> ParseEnum(s, KwDefault, KwPreserve)
    [] g = "tcont" -> ParseEnum(s, KwPar, KwSeq)

Start(g) ==
  CASE g = "time" -> TimeStart [] g = "length" -> LengthStart [] g = "colour" -> ColourStart [] g = "font" -> FontStart
    [] g \in {"frate", "trate"} -> S0("N0") [] g \in {"cellres", "fmult", "aspect", "dar"} -> S0("P0")
    [] g \in {"space", "tcont"} -> S0("E") [] OTHER -> Dead
Step(g, q, c, ctx) ==
  CASE g = "time" -> TimeStep(q, c, ctx) [] g = "length" -> LengthStep(q, c) [] g = "colour" -> ColourStep(q, c)
    [] g = "font" -> FontStep(q, c)
    [] g \in {"frate", "trate"} -> NatStep(q, c) [] g \in {"cellres", "fmult", "aspect", "dar"} -> PairStep(q, c)
    [] g = "space" -> EnumStep(q, c, {KwDefault, KwPreserve}) [] g = "tcont" -> EnumStep(q, c, {KwPar, KwSeq})
    [] OTHER -> Dead
Accepting(g, q) ==
  CASE g = "time" -> TimeAccepting(q) [] g = "length" -> LengthAccepting(q) [] g = "colour" -> ColourAccepting(q)
    [] g = "font" -> FontAccepting(q)
    [] g \in {"frate", "trate"} -> NatAccepting(q) [] g \in {"cellres", "fmult", "aspect", "dar"} -> PairAccepting(q)
    [] g = "space" -> EnumAccepting(q, {KwDefault, KwPreserve}) [] g = "tcont" -> EnumAccepting(q, {KwPar, KwSeq})
    [] OTHER -> FALSE

RECURSIVE RunFrom(_, _, _, _, _)
RunFrom(g, s, i, q, ctx) == IF i > Len(s) \/ q = Dead THEN q ELSE RunFrom(g, s, i + 1, Step(g, q, s[i], ctx), ctx)
Run(g, s, ctx) == RunFrom(g, s, 1, Start(g), ctx)
\* acceptance by formulation (A)
Accepts(g, s, ctx) == IF g = "position" THEN PositionAccepts(s)
                      ELSE IF g \in CharGrammars THEN Accepting(g, Run(g, s, ctx))
                      ELSE Parse(g, s, ctx).ok

\* the temporal contexts used by the model and by the traces
Contexts == <<[F |-> 30, mn |-> 1, md |-> 1, tick |-> 10000000, S |-> 1],
              [F |-> 30, mn |-> 1000, md |-> 1001, tick |-> 1, S |-> 1],
              [F |-> 25, mn |-> 1, md |-> 1, tick |-> 90000, S |-> 1],
              [F |-> 30, mn |-> 1, md |-> 2, tick |-> 1000, S |-> 1]>>
=============================================================================
