-------------------------------- MODULE LexMC --------------------------------
(* A machine whose behaviours build attribute values piece by piece, so that TLC can check the two formulations of
   every grammar of Lex.tla against each other (and a few facts about the languages), and so that its reachable
   states - dumped - are the family of strings replayed against the library (check X02).

   Cfg[id] = [gram    the grammar (a name of Lex!Grammars),
              mode    "dense" | "guided" | "ser",
              alpha   set of pieces (sequences of code points; mostly single characters),
              junk    further pieces, only used for deviations,
              dense   (dense) every string of at most `dense` pieces of alpha is built - no guidance at all,
              maxlen  (guided) bound on the length of a string (components for the component grammars),
              run     (guided) at most `run` consecutive digits,
              edits   (guided) 0 / 1: number of deviations a string may contain,
              odd, oddlen  (component grammars) the odd separators a deviation may use, up to `oddlen` components]

   mode "guided"  character grammars: the string follows the character-level machine of the grammar (Good: a piece
                  that keeps it viable), with at most `edits` deviations: Insert a junk piece the machine refuses
                  (the machine stays where it was), Omit a piece the machine accepts (the machine moves, the string
                  does not), Replace a piece the machine accepts by a junk piece.  So every viable string (within the
                  bounds), and every such string with one piece foreign, missing or replaced anywhere, is built,
                  whatever its continuation.
                  component grammars (position, extent, area): AddComponent / AddSeparator alternate; a deviation is
                  an odd separator (tab, two spaces, nothing, U+00A0, ...), a leading or a trailing space.
   mode "ser"     font families: lists of names over a small alphabet; the string is their serialisation.          *)
EXTENDS Lex, TLC

CONSTANTS Cfg, SerNames, SerMax
VARIABLES id, s, q, e, out
vars == <<id, s, q, e, out>>

C == Cfg[id]
g == C.gram
mode == C.mode  \* (TLC warns that a record field is also called mode: harmless)
Ctx1 == Contexts[1]
P(gg, str) == Parse(gg, str, Ctx1)
StepPiece(gg, qq, w) == RunFrom(gg, w, 1, qq, Ctx1)

Init == /\ id \in DOMAIN Cfg
        /\ s = <<>> /\ e = 0
        /\ q = IF mode = "ser" THEN St("SER", 0, <<>>) ELSE IF g \in CharGrammars /\ mode = "guided" THEN Start(g) ELSE St("B", 0, <<>>)
        /\ out = P(g, <<>>)

Set(ss, qq, ee) == /\ s' = ss /\ q' = qq /\ e' = ee /\ out' = P(g, ss) /\ UNCHANGED id

Extend == /\ mode = "dense" /\ q.v < C.dense
          /\ \E w \in C.alpha : Set(s \o w, St("B", q.v + 1, <<>>), 0)

\* --- guided, character grammars: q = state of the grammar's machine on the string without its deviation
Room == Len(s) < C.maxlen
IsDigitPiece(w) == Len(w) = 1 /\ w[1] \in Digit
RunOk(w) == IsDigitPiece(w) => ~(Len(s) >= C.run /\ \A k \in (Len(s) - C.run + 1)..Len(s) : s[k] \in Digit)
Good    == /\ mode = "guided" /\ g \in CharGrammars /\ Room
           /\ \E w \in C.alpha : LET n == StepPiece(g, q, w) IN n # Dead /\ RunOk(w) /\ Set(s \o w, n, e)
Insert  == /\ mode = "guided" /\ g \in CharGrammars /\ Room /\ e < C.edits
           /\ \E w \in C.junk \cup C.alpha : StepPiece(g, q, w) = Dead /\ Set(s \o w, q, e + 1)
Omit    == /\ mode = "guided" /\ g \in CharGrammars /\ e < C.edits
           /\ \E w \in C.alpha : LET n == StepPiece(g, q, w) IN n # Dead /\ Set(s, n, e + 1)
Replace == /\ mode = "guided" /\ g \in CharGrammars /\ Room /\ e < C.edits
           /\ \E w \in C.alpha : LET n == StepPiece(g, q, w) IN
                n # Dead /\ \E x \in C.junk : x # w /\ Set(s \o x, n, e + 1)

\* --- guided, component grammars: q.k = "B" nothing yet, "T" after a component, "S" after a separator, "Z" closed
AddComponent == /\ mode = "guided" /\ g \in CompGrammars /\ q.k \in {"B", "S"}
                /\ \E w \in C.alpha : Set(s \o w, St("T", q.v + 1, <<>>), e)
AddSeparator == /\ mode = "guided" /\ g \in CompGrammars /\ q.k = "T" /\ q.v < C.maxlen
                /\ Set(s \o <<SPACE>>, St("S", q.v, <<>>), e)
OddSeparator == /\ mode = "guided" /\ g \in CompGrammars /\ q.k = "T" /\ q.v < C.maxlen /\ q.v <= C.oddlen
                /\ e < C.edits
                /\ \E w \in C.odd : Set(s \o w, St("S", q.v, <<>>), e + 1)
LeadingSpace == /\ mode = "guided" /\ g \in CompGrammars /\ q.k = "B" /\ e < C.edits
                /\ Set(<<SPACE>>, St("S", 0, <<>>), e + 1)
TrailingSpace == /\ mode = "guided" /\ g \in CompGrammars /\ q.k = "T" /\ e < C.edits /\ q.v <= C.oddlen
                 /\ Set(s \o <<SPACE>>, St("Z", q.v, <<>>), e + 1)

\* --- serialisation: q.p = the list of families
AddFamily == /\ mode = "ser" /\ Len(q.p) < SerMax
             /\ \E f \in SerNames : LET fams == Append(q.p, f) IN Set(SerializeFont(fams), St("SER", 0, fams), 0)

Next == Extend \/ Good \/ Insert \/ Omit \/ Replace \/ AddComponent \/ AddSeparator \/ OddSeparator \/ LeadingSpace
        \/ TrailingSpace \/ AddFamily
Spec == Init /\ [][Next]_vars

-----------------------------------------------------------------------------
(* What TLC checks on every string built *)
\* the character-level machine (A) and the recursive-descent operator (B) define the same language
FormulationsAgree == Accepts(g, s, Ctx1) = out.ok
\* the guide really is the machine's state (only meaningful without deviation)
GuideIsMachineState == (mode = "guided" /\ g \in CharGrammars /\ e = 0) => q = Run(g, s, Ctx1)
\* Dead is absorbing: a string with a dead prefix is dead (viable strings are prefix-closed)
DeadIsAbsorbing == (s = <<>> /\ g \in CharGrammars) => \A w \in C.alpha \cup C.junk : StepPiece(g, Dead, w) = Dead

AcceptedProperPrefixes == {k \in 0..(Len(s) - 1) : Accepts(g, Sub(s, 1, k), Ctx1)}

\* time: shape, sign, and where an accepted time may be extended to another one
Colons == {k \in 1..Len(s) : s[k] = COLON}
ClockShape == LET a == CHOOSE k \in Colons : \A m \in Colons : k <= m IN
              /\ a >= 3 /\ Cardinality(Colons) \in {2, 3}
              /\ a + 3 \in Colons /\ Len(s) >= a + 5
              /\ \A k \in (1..(a - 1)) \cup {a + 1, a + 2, a + 4, a + 5} : s[k] \in Digit
              /\ Cardinality(Colons) = 3 => a + 6 \in Colons
OffsetShape == /\ s[1] \in Digit /\ s[Len(s)] \in {L.h, L.m, L.s, L.f, L.t}
               /\ Cardinality({k \in 1..Len(s) : s[k] = DOT}) <= 1
               /\ \A k \in 1..Len(s) : s[k] = DOT => (k > 1 /\ k < Len(s) /\ s[k - 1] \in Digit /\ s[k + 1] \in Digit)
TimeFacts == (g = "time" /\ out.ok) =>
               /\ IF Colons # {} THEN ClockShape ELSE OffsetShape
               /\ out.v[1] >= 0 /\ out.v[2] >= 0
               /\ \A k \in AcceptedProperPrefixes : s[k] \in Digit \cup {L.m}

\* length: the unit is the suffix, the number is never empty, the language is prefix-free
LengthFacts == (g = "length" /\ out.ok) =>
                 /\ \E u \in Units : Len(s) > Len(u) /\ Sub(s, Len(s) - Len(u) + 1, Len(s)) = u /\ UnitName(u) = out.v[3]
                 /\ \E k \in 1..Len(s) : s[k] \in Digit
                 /\ out.v[2] >= 0
                 /\ AcceptedProperPrefixes = {}
\* colour: components in range; the only accepted proper prefix is #rrggbb of #rrggbbaa
ColourFacts == (g = "colour" /\ out.ok) =>
                 /\ \A k \in 1..4 : out.v[k] \in 0..255
                 /\ (s[1] = HASH => Len(s) \in {7, 9})
                 /\ (Len(out.v) = 4)
                 /\ AcceptedProperPrefixes \subseteq (IF s[1] = HASH THEN {7} ELSE {})
\* position: the value of the equivalent four-component form is the value
PositionFacts == (g = "position" /\ out.ok) =>
                   LET ws == Components(s)
                       c4 == PositionCanon(ws)
                   IN  /\ Kinds(c4) = <<"H", "L", "V", "L">>
                       /\ PositionOfComps(c4) = out
                       /\ out.v[1] \in {"left", "right"} /\ out.v[3] \in {"top", "bottom"}
\* font families: serialising a list of names and parsing the result gives the list back
FontRoundTrip == mode = "ser" => (IF q.p = <<>> THEN ~out.ok ELSE out.ok /\ out.j /\ out.v = q.p)
FontFacts == (g = "font" /\ out.ok) =>
               /\ Len(out.v) >= 1
               /\ \A k \in 1..Len(out.v) : (out.v[k][2] # <<>> /\ (out.v[k][1] = 1 => out.v[k][2] \in GenericNames))
\* parameters
ParamFacts == /\ (g \in {"frate", "trate"} /\ out.ok) => out.v[1] > 0
              /\ (g \in {"cellres", "fmult", "aspect", "dar"} /\ out.ok) => (out.v[1] > 0 /\ out.v[2] > 0)
              /\ (g = "extent" /\ out.ok) => (out.v[1] > 0 /\ out.v[2] > 0)
              /\ (g \in {"space", "tcont"} /\ out.ok) => out.v[1] \in {0, 1}
=============================================================================
