---------------------------------- MODULE Lwsp ----------------------------------
(* White-space handling of ONE line-building unit (a paragraph, or the text of one ruby text
   container) as a character-level state machine.  Property C13, clause "white space has been
   collapsed or preserved according to xml:space".

   Written from XML 1.0 sec. 2.10 (xml:space), TTML2 xml:space (sec. 8.2 core attributes; default: linefeed-treatment
   = treat-as-space, white-space-collapse = true, suppress-at-line-break = auto; preserve: all white
   space is retained) and the usual line-area rules (XSL-FO 7.17.3 / CSS Text 4.1.1 phase I+II): a run
   of collapsible white space becomes one space; collapsible spaces at the beginning and at the end of
   a line are removed.  Not written from ttconv.isd.

   INPUT.  The inline content of the unit, flattened in document order into a sequence of items
       Ch(c, m)  a character with code point c whose nearest enclosing element has xml:space = m
                 (m = "default" | "preserve")
       BR        a forced line break (br element)
       SO / SC   the beginning / the end of an inline container (span, ruby, rb, rbc)
   Text inside rt, rtc and rp is NOT part of the paragraph's line: each rt (rp) is a unit of its own
   and is run through the machine separately.  The machine does not need SO/SC to be balanced: white
   space handling is blind to inline boundaries.

   STATE.  out          what has been put on the lines so far (Ch and BR items, in order)
           pending      a collapsed default-mode space has been seen on this line after some
                        character, and has not been emitted yet: it is emitted when (and only when)
                        another character follows on the same line - so a trailing space never is
           atLineStart  no character has been put on the current line yet
           prevIsSpace, prevMode   the previous character item of this line was white space, and its mode
           silent       the input has crossed a boundary about which the standards say nothing
           pos, done    position of the next item; End has happened

   DOMAIN.  The standards define collapsing within text that is uniformly collapsible.  They are silent
   about what happens where a default-mode white-space character is directly adjacent (inline
   boundaries do not count) to a preserve-mode white-space character: "a " followed by preserved " b"
   may be rendered with one or two spaces; a preserved "\n" may or may not make the following default
   space a line-start space.  InDomain(items) excludes exactly those inputs; the conformance check
   skips and counts them and never judges them.  (The machine is total nevertheless; `silent` is the
   dynamic counterpart of ~InDomain, tied to it by an invariant.)                                    *)
EXTENDS Integers, Sequences, FiniteSets, TLC

CONSTANTS MaxLen,      \* small model: longest item sequence
          Chars        \* small model: code points used

Modes == {"default", "preserve"}
WS    == {32, 9, 13, 10}                 \* space, tab, CR, LF
SP    == 32

Ch(c, m) == [k |-> "c", c |-> c, m |-> m]
BR == [k |-> "br", c |-> 0, m |-> "none"]
SO == [k |-> "so", c |-> 0, m |-> "none"]
SC == [k |-> "sc", c |-> 0, m |-> "none"]

IsChar(x)   == x.k = "c"
IsWsItem(x) == x.k = "c" /\ x.c \in WS
IsDefWs(x)  == IsWsItem(x) /\ x.m = "default"
IsDefSp(x)  == x = Ch(SP, "default")
IsPres(x)   == x.k = "c" /\ x.m = "preserve"
IsBoundary(x) == x.k \in {"so", "sc"}
\* what must survive whatever the mode: characters that are not white space, and line breaks
IsSolid(x)  == x.k = "br" \/ (x.k = "c" /\ x.c \notin WS)

-----------------------------------------------------------------------------
(* Domain of the specification *)

Sig(its) == SelectSeq(its, LAMBDA x : ~IsBoundary(x))      \* inline boundaries are invisible

InDomain(its) ==
  LET s == Sig(its) IN
  \A j \in 1..(Len(s) - 1) : ~(IsWsItem(s[j]) /\ IsWsItem(s[j + 1]) /\ s[j].m # s[j + 1].m)

-----------------------------------------------------------------------------
(* The machine, as state-transforming operators (the trace specification folds them over recorded
   inputs; the actions below apply them to the variables) *)

St0 == [out |-> <<>>, pending |-> FALSE, atLineStart |-> TRUE, prevIsSpace |-> FALSE, prevMode |-> "none",
        silent |-> FALSE]

Flush(s) == IF s.pending THEN Append(s.out, Ch(SP, "default")) ELSE s.out

OnChar(s, c, m) ==
  LET crossing == c \in WS /\ s.prevIsSpace /\ s.prevMode # m IN
  IF m = "default" /\ c \in WS
  THEN \* collapsible white space: never emitted here; remembered unless the line is still empty
       [s EXCEPT !.pending = s.pending \/ ~s.atLineStart,
                 !.prevIsSpace = TRUE, !.prevMode = m, !.silent = s.silent \/ crossing]
  ELSE \* any other character (default non-space, or anything in preserve mode) is copied, after the
       \* pending collapsed space if there is one
       [s EXCEPT !.out = Append(Flush(s), Ch(c, m)), !.pending = FALSE, !.atLineStart = FALSE,
                 !.prevIsSpace = (c \in WS), !.prevMode = m, !.silent = s.silent \/ crossing]

OnBr(s) == \* the pending space would end the line: dropped; the next line is empty
  [s EXCEPT !.out = Append(s.out, BR), !.pending = FALSE, !.atLineStart = TRUE,
            !.prevIsSpace = FALSE, !.prevMode = "none"]

OnSpan(s) == s                                             \* inline boundaries change nothing

OnEnd(s) == [s EXCEPT !.pending = FALSE]                   \* the pending space would end the last line

OnItem(s, x) == CASE x.k = "c"  -> OnChar(s, x.c, x.m)
                  [] x.k = "br" -> OnBr(s)
                  [] OTHER      -> OnSpan(s)

RECURSIVE RunFrom(_, _, _)
RunFrom(s, its, j) == IF j > Len(its) THEN OnEnd(s) ELSE RunFrom(OnItem(s, its[j]), its, j + 1)
Run(its) == RunFrom(St0, its, 1)
Output(its) == Run(its).out

-----------------------------------------------------------------------------
(* The machine as a state machine *)

VARIABLES items, pos, out, pending, atLineStart, prevIsSpace, prevMode, silent, done
vars == <<items, pos, out, pending, atLineStart, prevIsSpace, prevMode, silent, done>>

S == [out |-> out, pending |-> pending, atLineStart |-> atLineStart, prevIsSpace |-> prevIsSpace,
      prevMode |-> prevMode, silent |-> silent]

Become(t) == /\ out' = t.out /\ pending' = t.pending /\ atLineStart' = t.atLineStart
             /\ prevIsSpace' = t.prevIsSpace /\ prevMode' = t.prevMode /\ silent' = t.silent

Alphabet == {Ch(c, m) : c \in Chars, m \in Modes} \cup {BR, SO, SC}

Init == /\ items \in UNION {[1..n -> Alphabet] : n \in 0..MaxLen}
        /\ pos = 1 /\ done = FALSE
        /\ out = St0.out /\ pending = St0.pending /\ atLineStart = St0.atLineStart
        /\ prevIsSpace = St0.prevIsSpace /\ prevMode = St0.prevMode /\ silent = St0.silent

More == ~done /\ pos <= Len(items)
Advance == pos' = pos + 1 /\ UNCHANGED <<items, done>>

Char(c, m) == More /\ items[pos] = Ch(c, m) /\ Become(OnChar(S, c, m)) /\ Advance
Br         == More /\ items[pos] = BR /\ Become(OnBr(S)) /\ Advance
SpanOpen   == More /\ items[pos] = SO /\ Become(OnSpan(S)) /\ Advance
SpanClose  == More /\ items[pos] = SC /\ Become(OnSpan(S)) /\ Advance
End        == ~done /\ pos = Len(items) + 1 /\ Become(OnEnd(S)) /\ done' = TRUE /\ UNCHANGED <<items, pos>>

Next == \/ \E c \in Chars, m \in Modes : Char(c, m)
        \/ Br \/ SpanOpen \/ SpanClose \/ End

Spec == Init /\ [][Next]_vars

-----------------------------------------------------------------------------
(* Design-level properties, checked by TLC on the small model *)

Consumed == SubSeq(items, 1, pos - 1)

TypeOK == /\ pos \in 1..(Len(items) + 1)
          /\ \A j \in 1..Len(out) : out[j].k \in {"c", "br"}
          /\ pending \in BOOLEAN /\ atLineStart \in BOOLEAN /\ done \in BOOLEAN

\* no two consecutive spaces that both come from default-mode text
NoDoubleDefaultSpace == \A j \in 1..(Len(out) - 1) : ~(IsDefWs(out[j]) /\ IsDefWs(out[j + 1]))

\* white space of default-mode text reaches the output only as U+0020
DefaultWsIsSpace == \A j \in 1..Len(out) : IsDefWs(out[j]) => out[j].c = SP

\* a default-mode space never begins a line (paragraph start, after br) and never ends one (before br,
\* paragraph end): it is emitted only in front of a character of the same line
NoEdgeDefaultSpace ==
  \A j \in 1..Len(out) : IsDefWs(out[j]) =>
     /\ j > 1 /\ out[j - 1].k = "c"
     /\ j < Len(out) /\ out[j + 1].k = "c"

\* nothing but white space is ever dropped, reordered or duplicated (br included)
SolidKept == SelectSeq(out, IsSolid) = SelectSeq(Consumed, IsSolid)

\* preserve-mode characters are copied verbatim, white space included
PreserveVerbatim == SelectSeq(out, IsPres) = SelectSeq(Consumed, IsPres)

\* the state variables mean what the header says
StateMeaning ==
  /\ atLineStart = (out = <<>> \/ out[Len(out)].k = "br")
  /\ pending => ~atLineStart
  /\ done => ~pending

\* collapsing does not over-delete: every maximal run of default-mode white space that has a character
\* before it and a character after it on the same line leaves exactly one space
InteriorRuns(its) ==
  LET s == Sig(its) IN
  Cardinality({j \in 1..Len(s) :
     /\ IsDefWs(s[j])
     /\ j > 1 /\ IsChar(s[j - 1]) /\ ~IsDefWs(s[j - 1])                       \* the run starts here, after a character
     /\ \E n \in (j + 1)..Len(s) : /\ IsChar(s[n]) /\ ~IsDefWs(s[n])          \* and a character follows the run
                                   /\ \A q \in (j + 1)..(n - 1) : IsDefWs(s[q])})
SeparationKept ==
  (done /\ InDomain(items)) => Cardinality({j \in 1..Len(out) : IsDefWs(out[j])}) = InteriorRuns(items)

\* the static domain predicate and the dynamic flag agree
DomainIsDynamic == done => (silent = ~InDomain(items))

\* the functional form used by the trace specification is the machine
FoldIsMachine == done => out = Output(items)
=============================================================================
