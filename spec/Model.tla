----------------------------------- MODULE Model -----------------------------------
(* The canonical model API (ttconv.model) as a state machine over a fixed universe of elements.
   Property C15.

   Universe: elements 1..N with a kind (Kind[e]); regions are elements of kind "region" and carry an
   index RegId[e] into the set of region ids (two regions may share an id); documents 1..ND.
   0 stands for None.

   The abstract state is one record S:
     parent[e], kids[e] (sequence), owner[e] (document or 0), regref[e] (region *element* or 0),
     registry[d][id] (region element registered under id in d, or 0), body[d],
     styles[e] / steps[e] (sequences of <<property, token>>), initials[d]  -- tokens are opaque value ids
   Every API call is one action Do(op): the guard says when the call must be accepted, the effect what
   it must do; a rejected call leaves S unchanged.  WellFormed is the invariant of C15.              *)
EXTENDS Naturals, Sequences, FiniteSets, TLC

CONSTANTS Kind,        \* sequence of kind names, one per element
          RegId,       \* sequence: region id index (1..NIds) for regions, 0 otherwise
          NIds,        \* number of distinct region ids
          ND,          \* number of documents
          OpSet,       \* set of operation names explored by Next
          MaxPushChildren  \* bound on the length of push_children argument lists explored

E == 1..Len(Kind)
D == 1..ND
IdSet == 1..NIds
Regions == {e \in E : Kind[e] = "region"}

VARIABLES S, last
vars == <<S, last>>

-----------------------------------------------------------------------------
(* Helpers *)

Range(sq) == {sq[k] : k \in 1..Len(sq)}
KindsOf(sq) == [k \in 1..Len(sq) |-> Kind[sq[k]]]
NoDup(sq) == \A a, b \in 1..Len(sq) : a # b => sq[a] # sq[b]
RemoveElt(sq, x) == SelectSeq(sq, LAMBDA y : y # x)
AllKind(sq, k) == \A j \in 1..Len(sq) : sq[j] = k

\* ancestors of e (strict), bounded iteration so that it terminates on cyclic observations too
RECURSIVE AncUp(_, _, _)
AncUp(St, e, fuel) ==
  IF fuel = 0 \/ St.parent[e] = 0 THEN {}
  ELSE {St.parent[e]} \cup AncUp(St, St.parent[e], fuel - 1)
Anc(St, e) == AncUp(St, e, Len(Kind) + 1)

RECURSIVE SubUp(_, _, _)
SubUp(St, e, fuel) ==
  IF fuel = 0 THEN {e}
  ELSE {e} \cup UNION {SubUp(St, c, fuel - 1) : c \in Range(St.kids[e])}
Subtree(St, e) == SubUp(St, e, Len(Kind))

\* derived link views
First(St, e) == IF St.kids[e] = <<>> THEN 0 ELSE St.kids[e][1]
Last(St, e)  == IF St.kids[e] = <<>> THEN 0 ELSE St.kids[e][Len(St.kids[e])]
IndexIn(sq, x) == CHOOSE k \in 1..Len(sq) : sq[k] = x
NextSib(St, e) == IF St.parent[e] = 0 \/ e \notin Range(St.kids[St.parent[e]]) THEN 0
                  ELSE LET ks == St.kids[St.parent[e]] k == IndexIn(ks, e)
                       IN  IF k = Len(ks) THEN 0 ELSE ks[k + 1]
PrevSib(St, e) == IF St.parent[e] = 0 \/ e \notin Range(St.kids[St.parent[e]]) THEN 0
                  ELSE LET ks == St.kids[St.parent[e]] k == IndexIn(ks, e)
                       IN  IF k = 1 THEN 0 ELSE ks[k - 1]

-----------------------------------------------------------------------------
(* Content model (TTML2 / ttconv.model).  ks = sequence of kinds of the children of an element of
   kind pk.  Elements are built incrementally, so prefixes that the API can legally pass through are
   admitted: an empty ruby; an rtc holding  rp? rt*  or  rp rt* rp.                                  *)

RubyPatterns == { <<"rb", "rt">>, <<"rb", "rp", "rt", "rp">>, <<"rbc", "rtc">>, <<"rbc", "rtc", "rtc">> }

RtcOk(ks) ==
  \/ AllKind(ks, "rt")
  \/ /\ Len(ks) >= 1 /\ ks[1] = "rp"
     /\ \/ AllKind(SubSeq(ks, 2, Len(ks)), "rt")
        \/ Len(ks) >= 2 /\ ks[Len(ks)] = "rp" /\ AllKind(SubSeq(ks, 2, Len(ks) - 1), "rt")

KidsOk(pk, ks) ==
  CASE pk = "body" -> \A j \in 1..Len(ks) : ks[j] = "div"
    [] pk = "div"  -> \A j \in 1..Len(ks) : ks[j] \in {"div", "p"}
    [] pk = "p"    -> \A j \in 1..Len(ks) : ks[j] \in {"span", "br", "ruby"}
    [] pk = "span" -> \A j \in 1..Len(ks) : ks[j] \in {"span", "br", "text"}
    [] pk \in {"rb", "rt", "rp"} -> \A j \in 1..Len(ks) : ks[j] = "span"
    [] pk = "rbc"  -> \A j \in 1..Len(ks) : ks[j] = "rb"
    [] pk = "rtc"  -> RtcOk(ks)
    [] pk = "ruby" -> ks = <<>> \/ ks \in RubyPatterns
    [] OTHER       -> ks = <<>>                      \* br, text, region

-----------------------------------------------------------------------------
(* The invariant of C15 *)

LinksAgree(St) ==
  /\ \A e \in E : NoDup(St.kids[e])
  /\ \A e, c \in E : (c \in Range(St.kids[e])) <=> (St.parent[c] = e)
Acyclic(St) == \A e \in E : e \notin Anc(St, e)
OneOwnerPerTree(St) == \A e \in E : St.parent[e] # 0 => St.owner[e] = St.owner[St.parent[e]]
ContentModel(St) == \A e \in E : KidsOk(Kind[e], KindsOf(St.kids[e]))
RegionRefsRegistered(St) ==
  \A e \in E : St.regref[e] # 0 =>
     /\ St.regref[e] \in Regions
     /\ St.owner[e] # 0
     /\ St.registry[St.owner[e]][RegId[St.regref[e]]] = St.regref[e]
RegistryKeyed(St) == \A d \in D, i \in IdSet : St.registry[d][i] # 0 =>
                        St.registry[d][i] \in Regions /\ RegId[St.registry[d][i]] = i

WellFormed(St) ==
  /\ LinksAgree(St) /\ Acyclic(St) /\ OneOwnerPerTree(St)
  /\ ContentModel(St) /\ RegionRefsRegistered(St) /\ RegistryKeyed(St)

\* name of the first violated clause, for diagnostics
WhyNot(St) ==
  IF ~LinksAgree(St) THEN "links_agree" ELSE IF ~Acyclic(St) THEN "acyclic"
  ELSE IF ~OneOwnerPerTree(St) THEN "one_owner_per_tree" ELSE IF ~ContentModel(St) THEN "content_model"
  ELSE IF ~RegionRefsRegistered(St) THEN "region_refs_registered" ELSE IF ~RegistryKeyed(St) THEN "registry_keyed"
  ELSE "ok"

-----------------------------------------------------------------------------
(* Operations.  An op is a record [op, a, b, cs, d, id]; unused fields are 0 / <<>>.  *)

Op(name, a, b, cs, d, id) == [op |-> name, a |-> a, b |-> b, cs |-> cs, d |-> d, id |-> id]

CanAttachUnder(St, p, c) ==               \* structural part of the push guards
  /\ c # p /\ St.parent[c] = 0
  /\ St.owner[c] = St.owner[p]
  /\ c \notin Anc(St, p)                   \* a root may not be pushed under its own descendant

Guard(St, o) ==
  CASE o.op = "PushChild" ->
         /\ CanAttachUnder(St, o.a, o.b)
         /\ Kind[o.a] # "ruby"
         /\ KidsOk(Kind[o.a], KindsOf(Append(St.kids[o.a], o.b)))
    [] o.op = "PushChildren" ->
         /\ NoDup(o.cs)
         /\ \A j \in 1..Len(o.cs) : CanAttachUnder(St, o.a, o.cs[j])
         /\ Kind[o.a] = "ruby" => St.kids[o.a] = <<>> /\ o.cs # <<>>
         /\ KidsOk(Kind[o.a], KindsOf(St.kids[o.a] \o o.cs))
    [] o.op = "Remove" ->
         St.parent[o.a] = 0 \/ Kind[St.parent[o.a]] \notin {"ruby", "rtc"}
    [] o.op = "RemoveChild" ->
         o.b \in Range(St.kids[o.a]) /\ Kind[o.a] \notin {"ruby", "rtc"}
    [] o.op = "RemoveChildren" -> TRUE
    [] o.op = "SetDoc" ->
         /\ St.parent[o.a] = 0
         /\ o.d # 0 => \A x \in Subtree(St, o.a) : St.owner[x] = 0
    [] o.op = "SetRegion" ->
         IF o.b = 0 THEN Kind[o.a] # "br"
         ELSE /\ Kind[o.a] \notin {"br", "text", "region"}
              /\ o.b \in Regions
              /\ St.owner[o.a] # 0
              /\ St.registry[St.owner[o.a]][RegId[o.b]] = o.b
    [] o.op = "PutRegion" -> o.a \in Regions /\ St.owner[o.a] = o.d
    [] o.op = "RemoveRegion" -> TRUE
    [] o.op = "SetBody" ->
         o.a = 0 \/ (Kind[o.a] = "body" /\ St.parent[o.a] = 0 /\ St.owner[o.a] = o.d)
    [] OTHER -> FALSE

Effect(St, o) ==
  CASE o.op = "PushChild" ->
         [St EXCEPT !.parent[o.b] = o.a, !.kids[o.a] = Append(@, o.b)]
    [] o.op = "PushChildren" ->
         [St EXCEPT !.parent = [e \in E |-> IF e \in Range(o.cs) THEN o.a ELSE St.parent[e]],
                    !.kids[o.a] = @ \o o.cs]
    [] o.op = "Remove" ->
         IF St.parent[o.a] = 0 THEN St
         ELSE [St EXCEPT !.kids[St.parent[o.a]] = RemoveElt(@, o.a), !.parent[o.a] = 0]
    [] o.op = "RemoveChild" ->
         [St EXCEPT !.kids[o.a] = RemoveElt(@, o.b), !.parent[o.b] = 0]
    [] o.op = "RemoveChildren" ->
         [St EXCEPT !.parent = [e \in E |-> IF e \in Range(St.kids[o.a]) THEN 0 ELSE St.parent[e]],
                    !.kids[o.a] = <<>>]
    [] o.op = "SetDoc" ->
         LET sub == Subtree(St, o.a) IN
         [St EXCEPT !.owner = [e \in E |-> IF e \in sub THEN o.d ELSE St.owner[e]],
                    !.regref = [e \in E |-> IF e \in sub /\ o.d = 0 THEN 0 ELSE St.regref[e]]]
    [] o.op = "SetRegion" -> [St EXCEPT !.regref[o.a] = o.b]
    [] o.op = "PutRegion" ->
         LET old == St.registry[o.d][RegId[o.a]] IN
         [St EXCEPT !.registry[o.d][RegId[o.a]] = o.a,
                    !.regref = [e \in E |-> IF old # 0 /\ St.regref[e] = old /\ St.owner[e] = o.d
                                            THEN o.a ELSE St.regref[e]]]
    [] o.op = "RemoveRegion" ->
         LET old == St.registry[o.d][o.id] IN
         [St EXCEPT !.registry[o.d][o.id] = 0,
                    !.regref = [e \in E |-> IF old # 0 /\ St.regref[e] = old /\ St.owner[e] = o.d
                                            THEN 0 ELSE St.regref[e]]]
    [] o.op = "SetBody" -> [St EXCEPT !.body[o.d] = o.a]
    [] OTHER -> St

\* Outcomes the property admits for an accepted call.  Deterministic except where the statement only
\* requires well-formedness afterwards: references to a replaced region may be redirected or cleared.
Admits(St, o, St2) ==
  IF o.op = "PutRegion"
  THEN LET old == St.registry[o.d][RegId[o.a]]
           eff == Effect(St, o)
       IN  /\ [St2 EXCEPT !.regref = eff.regref] = eff
           /\ \A e \in E : St2.regref[e] = eff.regref[e]
                           \/ (old # 0 /\ old # o.a /\ St.regref[e] = old /\ St2.regref[e] = 0)
  ELSE St2 = Effect(St, o)

-----------------------------------------------------------------------------
(* The state machine explored by TLC *)

EmptyState ==
  [parent |-> [e \in E |-> 0], kids |-> [e \in E |-> <<>>], owner |-> [e \in E |-> 0],
   regref |-> [e \in E |-> 0], registry |-> [d \in D |-> [i \in IdSet |-> 0]], body |-> [d \in D |-> 0]]

RECURSIVE SeqsOver(_, _)
SeqsOver(set, n) == IF n = 0 THEN {<<>>}
                    ELSE LET shorter == SeqsOver(set, n - 1)
                         IN  shorter \cup {Append(sq, x) : sq \in {t \in shorter : Len(t) = n - 1}, x \in set \ {0}}

Ops(St) ==
  (IF "PushChild" \in OpSet THEN {Op("PushChild", p, c, <<>>, 0, 0) : p \in E, c \in E} ELSE {})
  \cup (IF "PushChildren" \in OpSet
        THEN {Op("PushChildren", p, 0, cs, 0, 0) : p \in {x \in E : Kind[x] \in {"ruby", "rtc"}},
              cs \in {sq \in SeqsOver({x \in E : Kind[x] \in {"rb", "rt", "rp", "rbc", "rtc"}}, MaxPushChildren) :
                        Len(sq) >= 1 /\ NoDup(sq)}} ELSE {})
  \cup (IF "Remove" \in OpSet THEN {Op("Remove", e, 0, <<>>, 0, 0) : e \in E} ELSE {})
  \cup (IF "RemoveChild" \in OpSet THEN {Op("RemoveChild", p, c, <<>>, 0, 0) : p \in E, c \in E} ELSE {})
  \cup (IF "RemoveChildren" \in OpSet THEN {Op("RemoveChildren", p, 0, <<>>, 0, 0) : p \in E} ELSE {})
  \cup (IF "SetDoc" \in OpSet THEN {Op("SetDoc", e, 0, <<>>, d, 0) : e \in E, d \in D \cup {0}} ELSE {})
  \cup (IF "SetRegion" \in OpSet THEN {Op("SetRegion", e, r, <<>>, 0, 0) : e \in E \ Regions, r \in Regions \cup {0}} ELSE {})
  \cup (IF "PutRegion" \in OpSet THEN {Op("PutRegion", r, 0, <<>>, d, 0) : r \in Regions, d \in D} ELSE {})
  \cup (IF "RemoveRegion" \in OpSet THEN {Op("RemoveRegion", 0, 0, <<>>, d, i) : d \in D, i \in IdSet} ELSE {})
  \cup (IF "SetBody" \in OpSet THEN {Op("SetBody", b, 0, <<>>, d, 0) : b \in {x \in E : Kind[x] = "body"} \cup {0}, d \in D} ELSE {})

Init == S = EmptyState /\ last = [op |-> Op("Init", 0, 0, <<>>, 0, 0), ok |-> TRUE]

Do(o) == LET ok == Guard(S, o) IN
         /\ S' = IF ok THEN Effect(S, o) ELSE S
         /\ last' = [op |-> o, ok |-> ok]

Next == \E o \in Ops(S) : Do(o)
Spec == Init /\ [][Next]_vars

CoreView == S                                  \* VIEW: the history variable does not multiply states

Inv_WellFormed == WellFormed(S)
RejectedUnchanged == [][last'.ok = FALSE => S' = S]_vars
\* every accepted effect is one the relation admits (sanity of Admits against Effect)
EffectAdmitted == [][last'.ok = TRUE => Admits(S, last'.op, S')]_vars
=============================================================================
