--------------------------------- MODULE MsSweep ---------------------------------
(* The millisecond quantiser as a state machine: a time cursor t sweeps a grid of Q ticks per second,
   ms is any nearest millisecond to t (ties may go either way).  TLC checks that *every* admissible
   quantiser is monotone and keeps fields in range - the design-level part of C12's last clause.  *)
EXTENDS Naturals, Integers, TLC
CONSTANTS Q,        \* ticks per second; choose a multiple of 2000 so that ties exist
          TMAX      \* sweep 0..TMAX ticks
VARIABLES t, ms
vars == <<t, ms>>

Abs(x) == IF x < 0 THEN -x ELSE x
Nearest(T, tt) == 2 * Abs(T * Q - 1000 * tt) <= Q
Cands(tt) == {T \in ((1000 * tt) \div Q)..((1000 * tt) \div Q + 1) : Nearest(T, tt)}

Init == t = 0 /\ ms \in Cands(0)
Step == /\ t < TMAX /\ t' = t + 1 /\ ms' \in Cands(t + 1)
Spec == Init /\ [][Step]_vars

ErrorAtMostHalf == 2 * Abs(ms * Q - 1000 * t) <= Q
Monotone == [][ms' >= ms]_vars
HasCandidate == Cands(t) # {}
=============================================================================
