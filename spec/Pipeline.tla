--------------------------------- MODULE Pipeline ---------------------------------
(* The conversion pipeline as a state machine over outcome classes, with structural faults injected into
   the input.  Property C18: whatever the input, a reader either returns a document, returns nothing
   after logging a fatal message, or raises an input-format error; a document that a reader returned can
   be snapshotted, filtered and written by every writer under every configuration without an exception.

   An input is a base file of one of the five formats with a sequence of faults applied.  A fault is
   [kind, unit, pos]: kind of damage, the unit it is applied to (line / token / byte / block) and a position
   class.  The machine: AddFault* ; Read ; then, only if the reader returned a document, any number of
   Snapshot / Sequence / Filter / Write steps.  "Internal" is an outcome class no action produces: the
   implementation conforms iff every recorded run is a behaviour of this machine.                     *)
EXTENDS Naturals, Sequences, FiniteSets, TLC

CONSTANTS Formats,        \* {"ttml", "scc", "stl", "srt", "vtt"}
          Kinds, Units, Positions,   \* fault alphabet
          MaxFaults,
          Stages          \* post-read stages, e.g. {"sigtimes", "snapshots", "sequence", "srt", "srt_plain", "vtt", ...}

FormatErrors == {"ParseError", "ValueError", "struct.error", "UnicodeDecodeError"}   \* documented input-format errors
ReadOutcomes == {"Doc", "NoneAfterFatal"} \cup {"FormatError:" \o e : e \in FormatErrors}
StageOutcomes == {"Ok", "RejectConfig"}                                         \* documented configuration rejections

Fault == [kind : Kinds, unit : Units, pos : Positions]

VARIABLES fmt, faults, phase, read, done
vars == <<fmt, faults, phase, read, done>>

Init == fmt \in Formats /\ faults = <<>> /\ phase = "input" /\ read = "" /\ done = {}

AddFault(f) == /\ phase = "input" /\ Len(faults) < MaxFaults
               /\ faults' = Append(faults, f) /\ UNCHANGED <<fmt, phase, read, done>>

\* the reader terminates with one of the documented outcomes - which one is up to the input
Read(o) == /\ phase = "input" /\ o \in ReadOutcomes
           /\ read' = o /\ phase' = IF o = "Doc" THEN "doc" ELSE "end"
           /\ UNCHANGED <<fmt, faults, done>>

\* every post-read stage is total on a document a reader returned
Stage(s, o) == /\ phase = "doc" /\ s \in Stages \ done /\ o \in StageOutcomes
               /\ done' = done \cup {s} /\ UNCHANGED <<fmt, faults, phase, read>>

Next == \/ \E f \in Fault : AddFault(f)
        \/ \E o \in ReadOutcomes : Read(o)
        \/ \E s \in Stages, o \in StageOutcomes : Stage(s, o)
Spec == Init /\ [][Next]_vars

\* design-level sanity: stages only ever run on a document; nothing runs after a failed read
StagesOnlyOnDoc == done # {} => read = "Doc"
TypeOK == read \in ReadOutcomes \cup {""} /\ Len(faults) <= MaxFaults
\* the reader is the only way out of the input phase
ReadOnce == [][phase = "input" \/ read' = read]_vars
=============================================================================
