--------------------------------- MODULE Progress ---------------------------------
(* Progress reporting of readers and writers (beyond the listed properties: part of the behaviour of
   every reader/writer call, observed by the C18 pipeline runs).  A call reports a sequence of
   fractions through its progress callback; the contract the CLI's progress bar relies on is that
   every report lies in [0, 1] and that reports never go backwards.  Fractions are recorded in
   thousandths.                                                                                   *)
EXTENDS Naturals, Sequences

VARIABLES last, n
vars == <<last, n>>

Init == last = 0 /\ n = 0
Report(x) == /\ x \in 0..1000 /\ x >= last
             /\ last' = x /\ n' = n + 1
Next == \E x \in 0..1000 : Report(x)
Spec == Init /\ [][Next]_vars

InRange == last \in 0..1000
NeverBackwards == [][last' >= last]_vars

\* a recorded sequence of reports is a behaviour of the machine iff every Report(x) is enabled in turn
RECURSIVE Accepts(_, _, _)
Accepts(sq, k, cur) == IF k > Len(sq) THEN TRUE
                       ELSE sq[k] \in 0..1000 /\ sq[k] >= cur /\ Accepts(sq, k + 1, sq[k])
Conforms(sq) == Accepts(sq, 1, 0)
=============================================================================
