------------------------------ MODULE SrtReader ------------------------------
(* Property C10: what a SubRip (.srt) file means.

   Written from the SubRip conventions and the text of the property, not from ttconv/srt/reader.py:

   * a file is a sequence of lines; a cue is  counter line, timing line, 1..n text lines, terminated by a
     blank line or by the end of the file; runs of blank lines between cues (and before the first) and
     any counter value are tolerated; hours have two or three digits; a line ends with LF or CR LF;
   * a time HH(H):MM:SS,mmm is the integer number of milliseconds ((h*60+m)*60+s)*1000+ms, i.e. the
     rational ms/1000 seconds EXACTLY;
   * inside the text of one cue, tags <b> <i> <u> <font color=..> (and {b} {i} {u}, and the long spellings
     bold / italic / underline) apply to exactly the characters between the opening tag and its closing tag;
     a tag still open at the end of the cue ends there; text lines are separated by line breaks.

   The module has three layers:
     (1) operators: Time, Frames (exact, overflow-free), the tag-stack step TagStep, the line step FileStep;
     (2) a generating state machine (VARIABLES below) whose actions are the line classes / tokens of the
         grammar and whose state is the reader state after the lines read so far - TLC explores it
         exhaustively for small bounds, checks the invariants at the end of the module, and its terminal states
         are replayed into ttconv.srt.reader by the harness;
     (3) Trace_SrtReader.tla folds the same FileStep/TagStep over the lexed lines of recorded files.     *)
EXTENDS Integers, Sequences, FiniteSets, TLC

-----------------------------------------------------------------------------
(* Time.  TLC integers are 32 bit and 999:59:59,999 is 3.6e9 ms, so the integer number of milliseconds
   S*1000+ms is kept in mixed radix <<S, ms>> (S whole seconds, 0 <= ms <= 999).                          *)

Secs(h, m, s)     == (h * 60 + m) * 60 + s
Time(h, m, s, ms) == <<Secs(h, m, s), ms>>
TimeMs(t)         == t[1] * 1000 + t[2]              \* only where it fits (design model)
TimeLeq(a, b)     == a[1] < b[1] \/ (a[1] = b[1] /\ a[2] <= b[2])

\* An observed value  whole + rnum/rden  seconds (0 <= rnum/rden < 1, rden = 0: not a small rational at
\* all, e.g. a binary float that is not a multiple of 1/1000) equals the time t exactly:
ExactlyEqual(t, whole, rnum, rden) == rden > 0 /\ whole = t[1] /\ rnum * 1000 = t[2] * rden

(* Frames.  The frame index of time t at rate n/d frames per second is  (S*1000+ms) * n / (1000*d).
   FramesQR gives <<floor, remainder>> without overflowing: for integer rates (d = 1) the whole seconds
   contribute S*n exactly; for the NTSC rates (d = 1001, n = 1000k) write S = d*q + r.                   *)
FramesQR(t, n, d) ==
  IF d = 1
  THEN <<t[1] * n + (t[2] * n) \div 1000, (t[2] * n) % 1000>>
  ELSE LET k == n \div 1000
           q == t[1] \div d
           r == t[1] % d
           x == (r * 1000 + t[2]) * k
       IN  <<1000 * q * k + x \div d, x % d>>
RateSupported(n, d) == (d = 1 /\ n \in 1..120) \/ (d = 1001 /\ n % 1000 = 0 /\ n \in 1000..120000)

\* "lands on the intended frame": a time that is exactly on a frame boundary must be written as that frame;
\* between two boundaries the rounding direction is the writer's choice (floor or ceiling), nothing else.
FrameOk(t, n, d, written) ==
  LET qr == FramesQR(t, n, d) IN
  IF qr[2] = 0 THEN written = qr[1] ELSE written \in {qr[1], qr[1] + 1}

-----------------------------------------------------------------------------
(* Tags.  A token is a record [t, k, cn, rgba, cs]:
     t = "open"  : opening tag of kind k \in Kinds; for k = "font" the colour is the name cn (if # "") or rgba
     t = "close" : closing tag of kind k
     t = "txt"   : a run of characters cs (code points)
     t = "nl"    : the line break between two text lines of a cue
   An output item is [c, b, i, u, col]: code point (10 for a line break), 0/1 flags, colour <<r,g,b,a>> or <<>>. *)

Kinds == {"b", "i", "u", "font"}

NamedColour(n) ==
  CASE n = "black" -> <<0, 0, 0, 255>>       [] n = "silver" -> <<192, 192, 192, 255>>
    [] n = "gray" -> <<128, 128, 128, 255>>  [] n = "white" -> <<255, 255, 255, 255>>
    [] n = "maroon" -> <<128, 0, 0, 255>>    [] n = "red" -> <<255, 0, 0, 255>>
    [] n = "purple" -> <<128, 0, 128, 255>>  [] n = "fuchsia" -> <<255, 0, 255, 255>>
    [] n = "magenta" -> <<255, 0, 255, 255>> [] n = "green" -> <<0, 128, 0, 255>>
    [] n = "lime" -> <<0, 255, 0, 255>>      [] n = "olive" -> <<128, 128, 0, 255>>
    [] n = "yellow" -> <<255, 255, 0, 255>>  [] n = "navy" -> <<0, 0, 128, 255>>
    [] n = "blue" -> <<0, 0, 255, 255>>      [] n = "teal" -> <<0, 128, 128, 255>>
    [] n = "aqua" -> <<0, 255, 255, 255>>    [] n = "cyan" -> <<0, 255, 255, 255>>
    [] OTHER -> <<>>
ColourOf(tok) == IF tok.cn # "" THEN NamedColour(tok.cn) ELSE tok.rgba

TOpen(k)        == [t |-> "open", k |-> k, cn |-> "", rgba |-> <<>>, cs |-> <<>>]
TFont(cn, rgba) == [t |-> "open", k |-> "font", cn |-> cn, rgba |-> rgba, cs |-> <<>>]
TClose(k)       == [t |-> "close", k |-> k, cn |-> "", rgba |-> <<>>, cs |-> <<>>]
TTxt(cs)        == [t |-> "txt", k |-> "", cn |-> "", rgba |-> <<>>, cs |-> cs]
TNl             == [t |-> "nl", k |-> "", cn |-> "", rgba |-> <<>>, cs |-> <<>>]

\* the tag stack: entries [k, col], innermost last
LastIdx(stack, k) ==
  LET S == {j \in 1..Len(stack) : stack[j].k = k}
  IN  IF S = {} THEN 0 ELSE CHOOSE j \in S : \A x \in S : x <= j
RemoveAt(s, j) == SubSeq(s, 1, j - 1) \o SubSeq(s, j + 1, Len(s))
Flag(stack, k) == IF LastIdx(stack, k) > 0 THEN 1 ELSE 0
StyleOf(stack) ==
  [b |-> Flag(stack, "b"), i |-> Flag(stack, "i"), u |-> Flag(stack, "u"),
   \* the colour of the innermost font tag THAT HAS ONE (a font tag without a colour, or with a colour that is not one,
   \* styles nothing: what it encloses keeps the colour in force)
   col |-> LET S == {j \in 1..Len(stack) : stack[j].k = "font" /\ stack[j].col # <<>>}
           IN  IF S = {} THEN <<>> ELSE stack[CHOOSE j \in S : \A x \in S : x <= j].col]
Item(c, sty) == [c |-> c, b |-> sty.b, i |-> sty.i, u |-> sty.u, col |-> sty.col]
BrItem == [c |-> 10, b |-> 0, i |-> 0, u |-> 0, col |-> <<>>]

TagInit == [stack |-> <<>>, out |-> <<>>, stray |-> 0]

(* One token.  A closing tag closes the nearest open tag OF ITS KIND and leaves the others open: this is
   "applies to exactly the characters it encloses" also when tags cross (<b>x<i>y</b>z</i>: x{b} y{b,i} z{i}).
   A closing tag with nothing to close encloses nothing: it is counted (stray) and ignored.  Tags of other kinds (any
   name) are opened and closed the same way and style nothing.                                            *)
TagStep(ts, tok) ==
  CASE tok.t = "open"  -> [ts EXCEPT !.stack = Append(@, [k |-> tok.k, col |-> ColourOf(tok)])]
    [] tok.t = "close" -> LET j == LastIdx(ts.stack, tok.k) IN
                          IF j = 0 THEN [ts EXCEPT !.stray = @ + 1] ELSE [ts EXCEPT !.stack = RemoveAt(@, j)]
    [] tok.t = "txt"   -> LET sty == StyleOf(ts.stack) IN
                          [ts EXCEPT !.out = @ \o [j \in 1..Len(tok.cs) |-> Item(tok.cs[j], sty)]]
    [] tok.t = "nl"    -> [ts EXCEPT !.out = Append(@, BrItem)]

RECURSIVE RunTagsFrom(_, _, _)
RunTagsFrom(ts, toks, k) == IF k > Len(toks) THEN ts ELSE RunTagsFrom(TagStep(ts, toks[k]), toks, k + 1)
RunTags(toks) == RunTagsFrom(TagInit, toks, 1)        \* a cue starts with an empty stack

-----------------------------------------------------------------------------
(* Lines.  The harness only LEXES a line into  [blank, digits, tm, toks]:
     blank  = 1 iff the line has no character other than white space
     digits = 1 iff the line is a decimal number (surrounded by optional white space)
     tm     = <<bh,bm,bs,bms, eh,em,es,ems>> iff the line is  HH(H):MM:SS,mmm --> HH(H):MM:SS,mmm , else <<>>
     toks   = the line split into tag and text tokens
   What a line IS depends on the state of the file machine:                                           *)

FileInit == [st |-> "Counter", cues |-> <<>>, cb |-> <<0, 0>>, ce |-> <<0, 0>>, ctoks |-> <<>>, nlines |-> 0, bad |-> ""]

Emit(fs) == [fs EXCEPT !.cues = Append(@, [begin |-> fs.cb, end |-> fs.ce, toks |-> fs.ctoks, nlines |-> fs.nlines]),
                       !.st = "Counter", !.ctoks = <<>>, !.nlines = 0]

TmFieldsOk(tm) == /\ tm[2] \in 0..59 /\ tm[3] \in 0..59 /\ tm[4] \in 0..999
                  /\ tm[6] \in 0..59 /\ tm[7] \in 0..59 /\ tm[8] \in 0..999

FileStep(fs, ln) ==
  IF fs.bad # "" THEN fs
  ELSE CASE fs.st = "Counter" ->
              IF ln.blank = 1 THEN fs                                        \* blank-line runs are tolerated
              ELSE IF ln.digits = 1 THEN [fs EXCEPT !.st = "Timing"]         \* any counter value
              ELSE [fs EXCEPT !.bad = "counter_expected"]
         [] fs.st = "Timing" ->
              IF ln.tm # <<>> /\ TmFieldsOk(ln.tm)
              THEN [fs EXCEPT !.st = "Text", !.ctoks = <<>>, !.nlines = 0,
                              !.cb = Time(ln.tm[1], ln.tm[2], ln.tm[3], ln.tm[4]),
                              !.ce = Time(ln.tm[5], ln.tm[6], ln.tm[7], ln.tm[8])]
              ELSE [fs EXCEPT !.bad = "timing_expected"]
         [] fs.st = "Text" ->
              IF ln.blank = 1
              THEN IF fs.nlines = 0 THEN [fs EXCEPT !.bad = "cue_without_text"] ELSE Emit(fs)
              ELSE [fs EXCEPT !.ctoks = IF fs.nlines = 0 THEN ln.toks ELSE (@ \o <<TNl>>) \o ln.toks,
                              !.nlines = @ + 1]

FileEnd(fs) ==
  IF fs.bad # "" THEN fs
  ELSE CASE fs.st = "Counter" -> fs
         [] fs.st = "Timing" -> [fs EXCEPT !.bad = "counter_without_timing"]
         [] fs.st = "Text" -> IF fs.nlines = 0 THEN [fs EXCEPT !.bad = "cue_without_text"] ELSE Emit(fs)

RECURSIVE FoldFile(_, _, _)
FoldFile(fs, lines, k) == IF k > Len(lines) THEN fs ELSE FoldFile(FileStep(fs, lines[k]), lines, k + 1)
RunFile(lines) == FileEnd(FoldFile(FileInit, lines, 1))

LBlank      == [blank |-> 1, digits |-> 0, tm |-> <<>>, toks |-> <<>>]
LCounter    == [blank |-> 0, digits |-> 1, tm |-> <<>>, toks |-> <<>>]
LTiming(tm) == [blank |-> 0, digits |-> 0, tm |-> tm, toks |-> <<>>]
LText(toks) == [blank |-> 0, digits |-> 0, tm |-> <<>>, toks |-> toks]

-----------------------------------------------------------------------------
(* The generating machine: one action per line class / token of the grammar.                            *)

CONSTANTS Alphabet,     \* set of tokens available inside text lines
          Timings,      \* set of 8-tuples available for timing lines
          MaxCues, MaxToks, MaxLinesPerCue, MaxBlankRun,
          AllowStray    \* TRUE: closing tags with nothing to close are generated too (design exploration only)

VARIABLES fs,     \* reader state after the complete lines read so far (FileStep folded over hist)
          cl,     \* tokens of the text line being written
          hist,   \* the lines written so far: this IS the input file
          nb,     \* length of the current run of blank lines
          done    \* end of file reached
vars == <<fs, cl, hist, nb, done>>

CueToks    == IF fs.st # "Text" THEN <<>>
              ELSE IF fs.nlines = 0 THEN cl ELSE (fs.ctoks \o <<TNl>>) \o cl     \* tokens of the cue being written
NTok(toks) == Cardinality({j \in 1..Len(toks) : toks[j].t # "nl"})

Init == fs = FileInit /\ cl = <<>> /\ hist = <<>> /\ nb = 0 /\ done = FALSE

ReadCounter == /\ ~done /\ fs.st = "Counter" /\ Len(fs.cues) < MaxCues
               /\ fs' = FileStep(fs, LCounter) /\ hist' = Append(hist, LCounter)
               /\ nb' = 0 /\ UNCHANGED <<cl, done>>
ReadBlank   == /\ ~done /\ cl = <<>> /\ nb < MaxBlankRun
               /\ (fs.st = "Counter" \/ (fs.st = "Text" /\ fs.nlines > 0))
               /\ fs' = FileStep(fs, LBlank) /\ hist' = Append(hist, LBlank)
               /\ nb' = nb + 1 /\ UNCHANGED <<cl, done>>
ReadTiming(tm) == /\ ~done /\ fs.st = "Timing"
                  /\ fs' = FileStep(fs, LTiming(tm)) /\ hist' = Append(hist, LTiming(tm))
                  /\ UNCHANGED <<cl, nb, done>>
WriteTok(tok) == /\ ~done /\ fs.st = "Text" /\ NTok(CueToks) < MaxToks
                 /\ (tok.t = "close" /\ ~AllowStray) => LastIdx(RunTags(CueToks).stack, tok.k) > 0
                 /\ (tok.t = "txt" /\ cl # <<>>) => cl[Len(cl)].t # "txt"      \* adjacent runs are one run
                 /\ cl' = Append(cl, tok) /\ UNCHANGED <<fs, hist, nb, done>>
EndLine     == /\ ~done /\ fs.st = "Text" /\ cl # <<>> /\ fs.nlines < MaxLinesPerCue
               /\ fs' = FileStep(fs, LText(cl)) /\ hist' = Append(hist, LText(cl))
               /\ cl' = <<>> /\ UNCHANGED <<nb, done>>
EndOfFile   == /\ ~done /\ cl = <<>> /\ (fs.st = "Counter" \/ (fs.st = "Text" /\ fs.nlines > 0))
               /\ fs' = FileEnd(fs) /\ done' = TRUE /\ UNCHANGED <<cl, hist, nb>>

Next == \/ ReadCounter \/ ReadBlank \/ EndLine \/ EndOfFile
        \/ \E tm \in Timings : ReadTiming(tm)
        \/ \E tok \in Alphabet : WriteTok(tok)
Spec == Init /\ [][Next]_vars

-----------------------------------------------------------------------------
(* Properties of the design, checked by TLC on every reachable state.                                    *)

\* the reader state is a function of the file: folding FileStep over the lines written gives fs
Inv_Deterministic == fs = (IF done THEN RunFile(hist) ELSE FoldFile(FileInit, hist, 1))

Inv_InGrammar == fs.bad = ""

\* declarative reading of "encloses", independent of the stack: position p of the token list is inside a tag of
\* kind k iff the number of opening tags of k before p exceeds the number of effective closing tags before p
RECURSIVE DepthBefore(_, _, _)
DepthBefore(toks, k, p) ==
  IF p = 1 THEN 0
  ELSE LET dd == DepthBefore(toks, k, p - 1)
           tk == toks[p - 1]
       IN  IF tk.t = "open" /\ tk.k = k THEN dd + 1
           ELSE IF tk.t = "close" /\ tk.k = k /\ dd > 0 THEN dd - 1
           ELSE dd
\* index in the output of the first item produced by token p
RECURSIVE OutIdx(_, _)
OutIdx(toks, p) == IF p = 1 THEN 1
                   ELSE OutIdx(toks, p - 1) + (IF toks[p - 1].t = "txt" THEN Len(toks[p - 1].cs)
                                               ELSE IF toks[p - 1].t = "nl" THEN 1 ELSE 0)
EnclosureOk(toks) ==
  LET out == RunTags(toks).out IN
  \A p \in 1..Len(toks) :
    toks[p].t = "txt" =>
      \A j \in 1..Len(toks[p].cs) :
        LET it == out[OutIdx(toks, p) + j - 1] IN
        /\ it.c = toks[p].cs[j]
        /\ (it.b = 1) = (DepthBefore(toks, "b", p) > 0)
        /\ (it.i = 1) = (DepthBefore(toks, "i", p) > 0)
        /\ (it.u = 1) = (DepthBefore(toks, "u", p) > 0)
        /\ (it.col # <<>>) = (DepthBefore(toks, "font", p) > 0)
Inv_StyleIsEnclosure == EnclosureOk(CueToks) /\ \A j \in 1..Len(fs.cues) : EnclosureOk(fs.cues[j].toks)

\* tag stack balanced at the end of a cue whose tags are balanced
CountTok(toks, t, k) == Cardinality({j \in 1..Len(toks) : toks[j].t = t /\ toks[j].k = k})
Balanced(toks) == \A k \in Kinds : CountTok(toks, "open", k) = CountTok(toks, "close", k)
Inv_BalancedStack ==
  \A j \in 1..Len(fs.cues) :
    LET r == RunTags(fs.cues[j].toks) IN (r.stray = 0 /\ Balanced(fs.cues[j].toks)) => r.stack = <<>>

\* cues = timing lines, in order, with their times and their lines
TimingIdx == {j \in 1..Len(hist) : hist[j].tm # <<>>}
NthTiming(n) == CHOOSE j \in TimingIdx : Cardinality({x \in TimingIdx : x <= j}) = n
Inv_CuesAreTimingLines ==
  /\ Len(fs.cues) <= Cardinality(TimingIdx)
  /\ Len(fs.cues) >= Cardinality(TimingIdx) - 1
  /\ done => Len(fs.cues) = Cardinality(TimingIdx)
  /\ \A n \in 1..Len(fs.cues) :
       LET tm == hist[NthTiming(n)].tm
           c  == fs.cues[n]
       IN  /\ TimeMs(c.begin) = ((tm[1] * 60 + tm[2]) * 60 + tm[3]) * 1000 + tm[4]
           /\ TimeMs(c.end) = ((tm[5] * 60 + tm[6]) * 60 + tm[7]) * 1000 + tm[8]
           /\ c.nlines >= 1
           /\ Cardinality({x \in 1..Len(c.toks) : c.toks[x].t = "nl"}) = c.nlines - 1
           /\ LET out == RunTags(c.toks).out IN
              Cardinality({x \in 1..Len(out) : out[x] = BrItem}) = c.nlines - 1

\* a boundary time is written as exactly its frame, whichever of floor / ceiling the writer uses
Inv_FrameBoundaries ==
  \A tm \in Timings : \A rate \in {<<25, 1>>, <<30, 1>>, <<24, 1>>, <<30000, 1001>>, <<24000, 1001>>, <<60000, 1001>>} :
    LET t  == Time(tm[1], tm[2], tm[3], tm[4])
        qr == FramesQR(t, rate[1], rate[2])
    IN  /\ RateSupported(rate[1], rate[2])
        /\ t[1] < 30000 =>                                             \* definition of floor / remainder (where 32 bits suffice)
             (IF rate[2] = 1 THEN qr[1] * 1000 + qr[2] = TimeMs(t) * rate[1]
              ELSE qr[1] * rate[2] + qr[2] = TimeMs(t) * (rate[1] \div 1000))
        /\ FrameOk(t, rate[1], rate[2], qr[1] + (IF qr[2] = 0 THEN 0 ELSE 1))
        /\ qr[2] = 0 => ~FrameOk(t, rate[1], rate[2], qr[1] + 1)
=============================================================================
