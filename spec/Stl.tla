--------------------------------- MODULE Stl ---------------------------------
(* EBU Tech 3264 subtitle data exchange format (".stl"), reader side.  Property C09.

   Written from the standard, not from ttconv:

   GSI block (1024 bytes).  Of interest here: DFC (disk format code = frame rate), DSC (display standard:
   "0" open subtitling, "1"/"2" level-1/2 teletext, blank = undefined), CCT (character code table of the
   text fields: "00" ISO 6937-2 Latin, "01".."04" ISO 8859-5/6/7/8), MNR (maximum number of displayable rows),
   TCP (time code: start of programme).

   TTI block (128 bytes): SGN, SN, EBN, CS, TCI, TCO, VP, JC, CF, TF(112).
     EBN  FFh = last (or only) block of the subtitle; 00h..EFh = extension block, more follow;
          FEh = user data; F0h..FDh reserved.
     CS   0 = not cumulative, 1 = first, 2 = intermediate, 3 = last subtitle of a cumulative set.
     CF   1 = the text field is a comment, not intended for transmission.
     JC   0 = unchanged presentation, 1 = left, 2 = centred, 3 = right.
     VP   row of the first line (teletext 1..23; open subtitles 1..MNR).
     TF   00h..07h alpha colours (black red green yellow blue magenta cyan white), 0Ah end box, 0Bh start box,
          0Ch normal height, 0Dh double height, 1Ch black background, 1Dh new background (:= foreground),
          other 08h..1Fh teletext spacing attributes; 20h..7Fh and A0h..FFh character codes;
          80h/81h italics on/off, 82h/83h underline on/off, 84h/85h boxing on/off, 8Ah CR/LF,
          8Fh unused space, remaining 86h..9Fh reserved.

   Two state machines:
     * the TTI accumulator  (variables hist, inExt, buf, nblk, subs, sets, open, last),
       one named action per class of received block;
     * the text-field pen machine (variables done, pen, tmode), one named action per byte class.
   The same effect operators are folded over whole inputs by RunBlocks / TfRun; the trace specification
   (Trace_Stl.tla) uses the folds, and the invariants TtiFoldAgrees / TfFoldAgrees tie fold and machine.

   Time arithmetic is that of Timecode.tla (label -> frame count, frame count -> exact offset), instantiated
   per frame rate with DROP = 0: Tech 3264 time codes count frames at the nominal rate, nothing is dropped.   *)
EXTENDS Naturals, Integers, Sequences, FiniteSets, TLC

CONSTANTS
  MODE,        \* "tti" or "tf": which machine Init/Next explores
  GSI,         \* [dfc, dsc, cct, tcp, mnr]   file header of the explored TTI sequences
  CFG,         \* [start, start_tc, rows, rows_n] reader configuration of the explored TTI sequences
  BLOCKS,      \* alphabet of TTI blocks  [sgn, sn, ebn, cs, tci, tco, vp, jc, cf, tf]
  MAXBLOCKS,   \* explore TTI sequences up to this length
  TFBYTES,     \* alphabet of text-field bytes
  MAXTF,       \* explore text fields up to this length
  TFMODES      \* set of [tt |-> BOOLEAN, cct |-> STRING] explored by the pen machine

VARIABLES hist, inExt, buf, nblk, subs, sets, open, last,      \* TTI accumulator
          done, pen, tmode                                     \* text-field pen machine
ttivars == <<hist, inExt, buf, nblk, subs, sets, open, last>>
tfvars  == <<done, pen, tmode>>
vars    == <<hist, inExt, buf, nblk, subs, sets, open, last, done, pen, tmode>>

\* one instance of the time-code arithmetic per frame rate (non-drop counting at the nominal rate)
T23 == INSTANCE Timecode WITH NUM <- 24000, DEN <- 1001, FPS <- 24, DROP <- 0, HOURS <- 100, STARTS <- {0},
                              n <- 0, h <- 0, m <- 0, s <- 0, f <- 0
T24 == INSTANCE Timecode WITH NUM <- 24, DEN <- 1, FPS <- 24, DROP <- 0, HOURS <- 100, STARTS <- {0},
                              n <- 0, h <- 0, m <- 0, s <- 0, f <- 0
T25 == INSTANCE Timecode WITH NUM <- 25, DEN <- 1, FPS <- 25, DROP <- 0, HOURS <- 100, STARTS <- {0},
                              n <- 0, h <- 0, m <- 0, s <- 0, f <- 0
T30 == INSTANCE Timecode WITH NUM <- 30, DEN <- 1, FPS <- 30, DROP <- 0, HOURS <- 100, STARTS <- {0},
                              n <- 0, h <- 0, m <- 0, s <- 0, f <- 0
T50 == INSTANCE Timecode WITH NUM <- 50, DEN <- 1, FPS <- 50, DROP <- 0, HOURS <- 100, STARTS <- {0},
                              n <- 0, h <- 0, m <- 0, s <- 0, f <- 0

-----------------------------------------------------------------------------
(* GSI decoding *)

\* DFC -> <<NUM, DEN, nominal label rate>>.  Tech 3264 defines STL25.01 (25 frames/s) and STL30.01 (30 frames/s);
\* STL23.01 / STL24.01 / STL50.01 are the de-facto extensions (23.976 counted at 24, 24, 50).
DfcKnown(dfc) == dfc \in {"STL23.01", "STL24.01", "STL25.01", "STL30.01", "STL50.01"}
Fps(dfc) == CASE dfc = "STL23.01" -> <<24000, 1001, 24>>
              [] dfc = "STL24.01" -> <<24, 1, 24>>
              [] dfc = "STL25.01" -> <<25, 1, 25>>
              [] dfc = "STL30.01" -> <<30, 1, 30>>
              [] dfc = "STL50.01" -> <<50, 1, 50>>

Teletext(dsc) == dsc \in {"1", "2"}

\* label -> frame count, frame count -> exact offset <<whole seconds, r>> meaning whole + r/NUM seconds
Frames(rate, tc) == CASE rate = <<24000, 1001, 24>> -> T23!ToFrames(tc[1], tc[2], tc[3], tc[4])
                      [] rate = <<24, 1, 24>> -> T24!ToFrames(tc[1], tc[2], tc[3], tc[4])
                      [] rate = <<25, 1, 25>> -> T25!ToFrames(tc[1], tc[2], tc[3], tc[4])
                      [] rate = <<30, 1, 30>> -> T30!ToFrames(tc[1], tc[2], tc[3], tc[4])
                      [] rate = <<50, 1, 50>> -> T50!ToFrames(tc[1], tc[2], tc[3], tc[4])
Offset(rate, k) == CASE rate = <<24000, 1001, 24>> -> T23!OffsetOf(k)
                     [] rate = <<24, 1, 24>> -> T24!OffsetOf(k)
                     [] rate = <<25, 1, 25>> -> T25!OffsetOf(k)
                     [] rate = <<30, 1, 30>> -> T30!OffsetOf(k)
                     [] rate = <<50, 1, 50>> -> T50!OffsetOf(k)
ValidTc(rate, tc) == tc[1] \in 0..23 /\ tc[2] \in 0..59 /\ tc[3] \in 0..59 /\ tc[4] \in 0..(rate[3] - 1)

\* programme start in frames: nothing configured = 00:00:00:00, "tcp" = the TCP field, "tc" = the configured label
Start(cfg, gsi) == CASE cfg.start = "none" -> 0
                     [] cfg.start = "tcp"  -> Frames(Fps(gsi.dfc), gsi.tcp)
                     [] cfg.start = "tc"   -> Frames(Fps(gsi.dfc), cfg.start_tc)

\* number of rows of the display grid: teletext has 23 subtitle rows; open subtitles use the configured count
\* (documented default 23, "mnr" = the MNR field)
Rows(cfg, gsi) == IF Teletext(gsi.dsc) THEN 23
                  ELSE CASE cfg.rows = "none" -> 23
                         [] cfg.rows = "mnr"  -> gsi.mnr
                         [] cfg.rows = "int"  -> cfg.rows_n

Env(gsi, cfg) == [rate |-> Fps(gsi.dfc), start |-> Start(cfg, gsi), tt |-> Teletext(gsi.dsc), cct |-> gsi.cct,
                  rows |-> Rows(cfg, gsi)]

-----------------------------------------------------------------------------
(* Text field: byte classes *)

FILLER == 143
NEWLINE == 138

Class(b, cct) ==
  IF b = FILLER THEN "filler"
  ELSE IF b = NEWLINE THEN "newline"
  ELSE IF b = 32 THEN "space"
  ELSE IF b \in 0..7 THEN "fg"
  ELSE IF b = 28 THEN "bgblack"
  ELSE IF b = 29 THEN "bgnew"
  ELSE IF b \in {10, 11} THEN "box"
  ELSE IF b \in {12, 13} THEN "height"
  ELSE IF b \in 8..31 THEN "tattr"              \* flash, steady, sizes, mosaics, conceal, hold/release
  ELSE IF b \in {128, 129} THEN "italic"
  ELSE IF b \in {130, 131} THEN "underline"
  ELSE IF b \in {132, 133} THEN "boxing"
  ELSE IF b \in 134..159 \/ b = 127 THEN "reserved"
  ELSE IF cct = "00" /\ b \in 193..207 THEN "diacritic"
  ELSE "char"                                   \* 21h..7Eh, A0h..FFh

\* ISO 6937: non-spacing diacritical marks C1h..CFh, as the Unicode combining mark that the composed letter
\* decomposes to (C9h, CCh are not used by ISO 6937-2: not judged)
Mark(d) == CASE d = 193 -> 768      \* grave            U+0300
             [] d = 194 -> 769      \* acute            U+0301
             [] d = 195 -> 770      \* circumflex       U+0302
             [] d = 196 -> 771      \* tilde            U+0303
             [] d = 197 -> 772      \* macron           U+0304
             [] d = 198 -> 774      \* breve            U+0306
             [] d = 199 -> 775      \* dot above        U+0307
             [] d = 200 -> 776      \* diaeresis        U+0308
             [] d = 202 -> 778      \* ring above       U+030A
             [] d = 203 -> 807      \* cedilla          U+0327
             [] d = 205 -> 779      \* double acute     U+030B
             [] d = 206 -> 808      \* ogonek           U+0328
             [] d = 207 -> 780      \* caron            U+030C
             [] OTHER -> -1

\* the repertoire of ISO 6937: base letters (code points = ASCII bytes) each mark combines with
Repertoire(d) ==
  CASE d = 193 -> {65, 69, 73, 79, 85, 97, 101, 105, 111, 117}                                          \* AEIOU aeiou
    [] d = 194 -> {65, 67, 69, 73, 76, 78, 79, 82, 83, 85, 89, 90,
                   97, 99, 101, 105, 108, 110, 111, 114, 115, 117, 121, 122}                            \* ACEILNORSUYZ
    [] d = 195 -> {65, 67, 69, 71, 72, 73, 74, 79, 83, 85, 87, 89,
                   97, 99, 101, 103, 104, 105, 106, 111, 115, 117, 119, 121}                            \* ACEGHIJOSUWY
    [] d = 196 -> {65, 73, 78, 79, 85, 97, 105, 110, 111, 117}                                          \* AINOU
    [] d = 197 -> {65, 69, 73, 79, 85, 97, 101, 105, 111, 117}                                          \* AEIOU
    [] d = 198 -> {65, 71, 85, 97, 103, 117}                                                            \* AGU
    [] d = 199 -> {67, 69, 71, 73, 90, 99, 101, 103, 122}                                               \* CEGIZ cegz
    [] d = 200 -> {65, 69, 73, 79, 85, 89, 97, 101, 105, 111, 117, 121}                                 \* AEIOUY
    [] d = 202 -> {65, 85, 97, 117}                                                                     \* AU
    [] d = 203 -> {67, 71, 75, 76, 78, 82, 83, 84, 99, 103, 107, 108, 110, 114, 115, 116}               \* CGKLNRST
    [] d = 205 -> {79, 85, 111, 117}                                                                    \* OU
    [] d = 206 -> {65, 69, 73, 85, 97, 101, 105, 117}                                                   \* AEIU
    [] d = 207 -> {67, 68, 69, 76, 78, 82, 83, 84, 90, 99, 100, 101, 108, 110, 114, 115, 116, 122}      \* CDELNRSTZ
    [] OTHER -> {}

\* single-byte characters of the ISO 6937 upper half that are restated here (a subset the author is sure of);
\* every other upper-half byte, and the whole upper half of the ISO 8859 tables, is "one character, not judged" (-1)
Iso6937High ==
  161 :> 161 @@ 162 :> 162 @@ 163 :> 163 @@ 165 :> 165 @@ 167 :> 167 @@ 171 :> 171 @@ 176 :> 176 @@ 177 :> 177 @@
  178 :> 178 @@ 179 :> 179 @@ 181 :> 181 @@ 182 :> 182 @@ 183 :> 183 @@ 187 :> 187 @@ 188 :> 188 @@ 189 :> 189 @@
  190 :> 190 @@ 191 :> 191 @@ 180 :> 215 @@ 184 :> 247 @@
  225 :> 198 @@ 233 :> 216 @@ 234 :> 338 @@ 236 :> 222 @@ 232 :> 321 @@
  241 :> 230 @@ 249 :> 248 @@ 250 :> 339 @@ 251 :> 223 @@ 252 :> 254 @@ 248 :> 322 @@ 243 :> 240

CodePoint(b, cct) == IF b \in 33..126 THEN b
                     ELSE IF cct = "00" /\ b \in DOMAIN Iso6937High THEN Iso6937High[b]
                     ELSE -1

-----------------------------------------------------------------------------
(* Text field: the pen.  Output is a sequence of cells, one per displayed (non-space) character:
     gap   what separates the character from the previous one: 0 nothing, 1 an optional space (a control code
           whose width the standard does not fix), 2 a space (space characters; teletext spacing attributes),
           3 a line break (one or more CR/LF); the first cell has gap 0
     base, mark   code point of the base character (-1 = not judged) and combining mark (0 none, -1 not judged)
     fg, bg       colour index 0..7 (teletext alpha colours), 8 = transparent
     bgj          FALSE when the background is not judged (after a boxing code)
     it, ul       italics / underline
     row, dh      row offset from VP (number of CR/LF so far) and double height                         *)

DefaultBg(tt) == IF tt THEN 0 ELSE 8
InitPen(mode) == [fg |-> 7, bg |-> DefaultBg(mode.tt), bgj |-> TRUE, it |-> FALSE, ul |-> FALSE, dh |-> FALSE,
                  bx |-> FALSE, gap |-> 0, dia |-> 0, stop |-> FALSE, row |-> 0, out |-> <<>>]

Max2(a, b) == IF a < b THEN b ELSE a
Widen(p, g) == [p EXCEPT !.gap = Max2(@, g)]
\* a control code occupies a character cell in teletext (00h..1Fh are spacing attributes); the standard does not
\* say whether the open-subtitling codes 80h..85h, or teletext codes in an open subtitle, have a width
CtlGap(b, mode) == IF mode.tt /\ b < 32 THEN 2 ELSE 1

OnChar(p, b, mode) ==
  LET known == p.dia = 0 \/ b \in Repertoire(p.dia)
      cell == [gap |-> IF p.out = <<>> THEN 0 ELSE p.gap,
               base |-> IF known THEN CodePoint(b, mode.cct) ELSE -1,
               \* a character that is not judged may decompose into anything
               mark |-> IF ~known \/ CodePoint(b, mode.cct) = -1 THEN -1 ELSE IF p.dia = 0 THEN 0 ELSE Mark(p.dia),
               fg |-> p.fg, bg |-> p.bg, bgj |-> p.bgj, it |-> p.it, ul |-> p.ul, row |-> p.row, dh |-> p.dh]
  IN  [p EXCEPT !.out = Append(@, cell), !.gap = 0, !.dia = 0]
OnDiacritic(p, b) == [p EXCEPT !.dia = b]
OnSpace(p)        == Widen(p, 2)
OnFg(p, b, mode)  == Widen([p EXCEPT !.fg = b], CtlGap(b, mode))
OnBgBlack(p, mode) == Widen([p EXCEPT !.bg = 0], CtlGap(28, mode))
OnBgNew(p, mode)  == Widen([p EXCEPT !.bg = p.fg], CtlGap(29, mode))
OnBox(p, b, mode) == Widen([p EXCEPT !.bx = (b = 11)], CtlGap(b, mode))
OnHeight(p, b, mode) == Widen([p EXCEPT !.dh = (b = 13)], CtlGap(b, mode))
OnTAttr(p, b, mode) == Widen(p, CtlGap(b, mode))
OnItalic(p, b, mode) == Widen([p EXCEPT !.it = (b = 128)], CtlGap(b, mode))
OnUnderline(p, b, mode) == Widen([p EXCEPT !.ul = (b = 130)], CtlGap(b, mode))
OnBoxing(p, b, mode) == Widen([p EXCEPT !.bgj = FALSE], CtlGap(b, mode))
\* CR/LF: next row.  A teletext row starts with the default attributes; an open subtitle keeps the pen.
OnNewline(p, mode) ==
  LET q == [p EXCEPT !.gap = 3, !.row = @ + 1]
  IN  IF mode.tt THEN [q EXCEPT !.fg = 7, !.bg = 0, !.bgj = TRUE, !.it = FALSE, !.ul = FALSE, !.dh = FALSE, !.bx = FALSE]
      ELSE q
OnFiller(p) == [p EXCEPT !.stop = TRUE]

TfStep(p, b, mode) ==
  IF p.stop THEN p
  ELSE LET c == Class(b, mode.cct) IN
       CASE c = "filler"    -> OnFiller(p)
         [] c = "newline"   -> OnNewline(p, mode)
         [] c = "space"     -> OnSpace(p)
         [] c = "fg"        -> OnFg(p, b, mode)
         [] c = "bgblack"   -> OnBgBlack(p, mode)
         [] c = "bgnew"     -> OnBgNew(p, mode)
         [] c = "box"       -> OnBox(p, b, mode)
         [] c = "height"    -> OnHeight(p, b, mode)
         [] c = "tattr"     -> OnTAttr(p, b, mode)
         [] c = "italic"    -> OnItalic(p, b, mode)
         [] c = "underline" -> OnUnderline(p, b, mode)
         [] c = "boxing"    -> OnBoxing(p, b, mode)
         [] c = "reserved"  -> p
         [] c = "diacritic" -> OnDiacritic(p, b)
         [] c = "char"      -> OnChar(p, b, mode)

RECURSIVE TfFold(_, _, _, _)
TfFold(p, s, i, mode) == IF i > Len(s) THEN p ELSE TfFold(TfStep(p, s[i], mode), s, i + 1, mode)
TfRun(s, mode) == TfFold(InitPen(mode), s, 1, mode)

\* the used part of a text field: everything before the first unused-space byte
UpToFiller(s) == IF \E i \in 1..Len(s) : s[i] = FILLER
                 THEN SubSeq(s, 1, (CHOOSE i \in 1..Len(s) : s[i] = FILLER /\ \A j \in 1..(i - 1) : s[j] # FILLER) - 1)
                 ELSE s

\* a diacritic must be followed by its letter within the same text field (never split, never dangling)
RECURSIVE DiaOk(_, _, _)
DiaOk(s, i, cct) == IF i > Len(s) THEN TRUE
                    ELSE IF Class(s[i], cct) = "diacritic"
                         THEN i < Len(s) /\ Class(s[i + 1], cct) = "char" /\ s[i + 1] < 128 /\ DiaOk(s, i + 2, cct)
                         ELSE DiaOk(s, i + 1, cct)

\* geometry of a text: regular = rows are either all single height with single CR/LF, or all double height with
\* CR/LF pairs, no CR/LF before the first or after the last character; only regular texts have their rows judged
RowsRegular(cells, finalRow) ==
  /\ cells # <<>>
  /\ cells[1].row = 0
  /\ cells[Len(cells)].row = finalRow
  /\ \/ \A k \in 1..Len(cells) : ~cells[k].dh
     \/ /\ \A k \in 1..Len(cells) : cells[k].dh
        /\ \A k \in 2..Len(cells) : cells[k].row - cells[k - 1].row \in {0, 2}
\* last row (offset from VP) occupied by the text
LastRow(cells) == LET c == cells[Len(cells)] IN c.row + (IF c.dh THEN 1 ELSE 0)

-----------------------------------------------------------------------------
(* TTI accumulator: effects on the abstract state  S = [inExt, buf, nblk, subs, sets, open]
   opt = [comments, user, drop] switches that exist only so the trace specification can *name* a divergence
   (expected behaviour is AllOn).                                                                     *)

AllOn == [comments |-> TRUE, user |-> TRUE, drop |-> TRUE]

Kind(b, opt) ==
  IF b.ebn = 254 /\ opt.user THEN "user"
  ELSE IF b.ebn \in 240..253 /\ opt.user THEN "reserved"
  ELSE IF b.cf = 1 /\ opt.comments THEN "comment"
  ELSE IF b.ebn = 255 THEN "terminal"
  ELSE "ext"                                     \* any other EBN: more blocks follow

S0 == [inExt |-> FALSE, buf |-> <<>>, nblk |-> 0, subs |-> <<>>, sets |-> <<>>, open |-> FALSE]

Extend(S, b) == [S EXCEPT !.inExt = TRUE, !.buf = @ \o UpToFiller(b.tf), !.nblk = @ + 1]

Dropped(S, b, env, opt) == opt.drop /\ Frames(env.rate, b.tci) - env.start < 0

\* the terminal block of a subtitle that starts before the programme: nothing is emitted
DropEarlyEff(S, b) == [S EXCEPT !.inExt = FALSE, !.buf = <<>>, !.nblk = 0]

\* the terminal block: emit the subtitle; cumulative status decides which set it joins
EmitEff(S, b, env) ==
  LET k    == Len(S.subs) + 1
      old  == S.sets
      newset == b.cs = 1 \/ (b.cs \in {2, 3} /\ ~S.open)
      setno  == IF b.cs = 0 THEN 0 ELSE IF newset THEN Len(S.sets) + 1 ELSE Len(S.sets)
      sub == [b |-> Frames(env.rate, b.tci) - env.start, e |-> Frames(env.rate, b.tco) - env.start,
              tf |-> S.buf \o UpToFiller(b.tf), n |-> S.nblk + 1,
              jc |-> b.jc, vp |-> b.vp, cs |-> b.cs, sgn |-> b.sgn, sn |-> b.sn, set |-> setno]
  IN  [S EXCEPT !.inExt = FALSE, !.buf = <<>>, !.nblk = 0,
                !.subs = Append(@, sub),
                !.sets = IF b.cs = 0 THEN old
                         ELSE IF newset THEN Append(old, <<k>>)
                         ELSE [old EXCEPT ![Len(old)] = Append(old[Len(old)], k)],
                !.open = b.cs \in {1, 2}]

Step(S, b, env, opt) ==
  LET kd == Kind(b, opt) IN
  CASE kd \in {"user", "reserved", "comment"} -> S
    [] kd = "ext" -> Extend(S, b)
    [] kd = "terminal" -> IF Dropped(S, b, env, opt) THEN DropEarlyEff(S, b) ELSE EmitEff(S, b, env)

RECURSIVE BlocksFold(_, _, _, _, _)
BlocksFold(S, bs, i, env, opt) == IF i > Len(bs) THEN S ELSE BlocksFold(Step(S, bs[i], env, opt), bs, i + 1, env, opt)
RunBlocks(bs, env, opt) == BlocksFold(S0, bs, 1, env, opt)

\* SN is the subtitle number: the subtitles of a file (terminal blocks that are not skipped) carry different numbers.
\* What a reader makes of a repeated number is outside the property (the trace specification only requires that it does
\* not depend on the magnitude of the numbers).
SnWellFormed(bs) ==
  LET t == SelectSeq(bs, LAMBDA x : Kind(x, AllOn) = "terminal")
  IN  \A j, k \in 1..Len(t) : j # k => t[j].sn # t[k].sn

\* mapping of the presentation fields
Align(jc) == CASE jc = 1 -> {"start"} [] jc = 2 -> {"center"} [] jc = 3 -> {"end"}
               [] OTHER -> {"start", "center", "end"}       \* 0 = unchanged presentation: no alignment is prescribed

-----------------------------------------------------------------------------
(* The machines *)

ENV == Env(GSI, CFG)
SNow == [inExt |-> inExt, buf |-> buf, nblk |-> nblk, subs |-> subs, sets |-> sets, open |-> open]
Become(S, b, what) ==
  /\ inExt' = S.inExt /\ buf' = S.buf /\ nblk' = S.nblk /\ subs' = S.subs /\ sets' = S.sets /\ open' = S.open
  /\ hist' = Append(hist, b) /\ last' = what
  /\ UNCHANGED tfvars

UserData(b)  == Kind(b, AllOn) = "user"     /\ Become(SNow, b, "user")
Reserved(b)  == Kind(b, AllOn) = "reserved" /\ Become(SNow, b, "reserved")
Comment(b)   == Kind(b, AllOn) = "comment"  /\ Become(SNow, b, "comment")
Extension(b) == Kind(b, AllOn) = "ext"      /\ Become(Extend(SNow, b), b, "ext")
DropEarly(b) == Kind(b, AllOn) = "terminal" /\ Dropped(SNow, b, ENV, AllOn) /\ Become(DropEarlyEff(SNow, b), b, "drop")
Emit(b)      == Kind(b, AllOn) = "terminal" /\ ~Dropped(SNow, b, ENV, AllOn) /\ Become(EmitEff(SNow, b, ENV), b, "emit")

Block(b) == UserData(b) \/ Reserved(b) \/ Comment(b) \/ Extension(b) \/ DropEarly(b) \/ Emit(b)

TMode == tmode
Consume(p, b) == pen' = p /\ done' = Append(done, b) /\ UNCHANGED <<tmode>> /\ UNCHANGED ttivars
Is(b, c) == ~pen.stop /\ Class(b, TMode.cct) = c
TfCharacter(b) == Is(b, "char")      /\ Consume(OnChar(pen, b, TMode), b)
TfDiacritic(b) == Is(b, "diacritic") /\ Consume(OnDiacritic(pen, b), b)
TfSpace(b)     == Is(b, "space")     /\ Consume(OnSpace(pen), b)
TfColour(b)    == Is(b, "fg")        /\ Consume(OnFg(pen, b, TMode), b)
TfBlackBg(b)   == Is(b, "bgblack")   /\ Consume(OnBgBlack(pen, TMode), b)
TfNewBg(b)     == Is(b, "bgnew")     /\ Consume(OnBgNew(pen, TMode), b)
TfBox(b)       == Is(b, "box")       /\ Consume(OnBox(pen, b, TMode), b)
TfHeight(b)    == Is(b, "height")    /\ Consume(OnHeight(pen, b, TMode), b)
TfAttr(b)      == Is(b, "tattr")     /\ Consume(OnTAttr(pen, b, TMode), b)
TfItalic(b)    == Is(b, "italic")    /\ Consume(OnItalic(pen, b, TMode), b)
TfUnderline(b) == Is(b, "underline") /\ Consume(OnUnderline(pen, b, TMode), b)
TfBoxing(b)    == Is(b, "boxing")    /\ Consume(OnBoxing(pen, b, TMode), b)
TfReserved(b)  == Is(b, "reserved")  /\ Consume(pen, b)
TfNewline(b)   == Is(b, "newline")   /\ Consume(OnNewline(pen, TMode), b)
TfFiller(b)    == Is(b, "filler")    /\ Consume(OnFiller(pen), b)
TfAfterFiller(b) == pen.stop         /\ Consume(pen, b)           \* whatever follows the unused-space byte is ignored

TfByte(b) == \/ TfCharacter(b) \/ TfDiacritic(b) \/ TfSpace(b) \/ TfColour(b) \/ TfBlackBg(b) \/ TfNewBg(b)
             \/ TfBox(b) \/ TfHeight(b) \/ TfAttr(b) \/ TfItalic(b) \/ TfUnderline(b) \/ TfBoxing(b)
             \/ TfReserved(b) \/ TfNewline(b) \/ TfFiller(b) \/ TfAfterFiller(b)

IdleTti == hist = <<>> /\ inExt = FALSE /\ buf = <<>> /\ nblk = 0 /\ subs = <<>> /\ sets = <<>> /\ open = FALSE /\ last = "init"

Init == /\ IdleTti
        /\ done = <<>>
        /\ IF MODE = "tf" THEN tmode \in TFMODES ELSE tmode = [tt |-> Teletext(GSI.dsc), cct |-> GSI.cct]
        /\ pen = InitPen(tmode)

\* Next is a disjunction of named actions (one per block class / byte class) so that TLC reports coverage per action.
\* In the pen machine a diacritic is followed by a base letter (ISO 6937: the pair is one coded character).
TtiOn == MODE = "tti" /\ Len(hist) < MAXBLOCKS
\* well-formed input: SN numbers the subtitles, so the terminal blocks of different subtitles differ in SN (SnWellFormed)
FreshSn(b) == SnWellFormed(Append(hist, b))
TfOn(b) == MODE = "tf" /\ Len(done) < MAXTF /\ (pen.dia # 0 /\ ~pen.stop => b \in 65..122)
NUserData == TtiOn /\ \E b \in BLOCKS : UserData(b)
NReserved == TtiOn /\ \E b \in BLOCKS : Reserved(b)
NComment == TtiOn /\ \E b \in BLOCKS : Comment(b)
NExtension == TtiOn /\ \E b \in BLOCKS : Extension(b)
NDropEarly == TtiOn /\ \E b \in BLOCKS : FreshSn(b) /\ DropEarly(b)
NEmit == TtiOn /\ \E b \in BLOCKS : FreshSn(b) /\ Emit(b)
NTfCharacter == MODE = "tf" /\ \E b \in TFBYTES : TfOn(b) /\ TfCharacter(b)
NTfDiacritic == MODE = "tf" /\ \E b \in TFBYTES : TfOn(b) /\ TfDiacritic(b)
NTfSpace == MODE = "tf" /\ \E b \in TFBYTES : TfOn(b) /\ TfSpace(b)
NTfColour == MODE = "tf" /\ \E b \in TFBYTES : TfOn(b) /\ TfColour(b)
NTfBlackBg == MODE = "tf" /\ \E b \in TFBYTES : TfOn(b) /\ TfBlackBg(b)
NTfNewBg == MODE = "tf" /\ \E b \in TFBYTES : TfOn(b) /\ TfNewBg(b)
NTfBox == MODE = "tf" /\ \E b \in TFBYTES : TfOn(b) /\ TfBox(b)
NTfHeight == MODE = "tf" /\ \E b \in TFBYTES : TfOn(b) /\ TfHeight(b)
NTfAttr == MODE = "tf" /\ \E b \in TFBYTES : TfOn(b) /\ TfAttr(b)
NTfItalic == MODE = "tf" /\ \E b \in TFBYTES : TfOn(b) /\ TfItalic(b)
NTfUnderline == MODE = "tf" /\ \E b \in TFBYTES : TfOn(b) /\ TfUnderline(b)
NTfBoxing == MODE = "tf" /\ \E b \in TFBYTES : TfOn(b) /\ TfBoxing(b)
NTfReserved == MODE = "tf" /\ \E b \in TFBYTES : TfOn(b) /\ TfReserved(b)
NTfNewline == MODE = "tf" /\ \E b \in TFBYTES : TfOn(b) /\ TfNewline(b)
NTfFiller == MODE = "tf" /\ \E b \in TFBYTES : TfOn(b) /\ TfFiller(b)
NTfAfterFiller == MODE = "tf" /\ \E b \in TFBYTES : TfOn(b) /\ TfAfterFiller(b)
Next == \/ NUserData
        \/ NReserved
        \/ NComment
        \/ NExtension
        \/ NDropEarly
        \/ NEmit
        \/ NTfCharacter
        \/ NTfDiacritic
        \/ NTfSpace
        \/ NTfColour
        \/ NTfBlackBg
        \/ NTfNewBg
        \/ NTfBox
        \/ NTfHeight
        \/ NTfAttr
        \/ NTfItalic
        \/ NTfUnderline
        \/ NTfBoxing
        \/ NTfReserved
        \/ NTfNewline
        \/ NTfFiller
        \/ NTfAfterFiller

Spec == Init /\ [][Next]_vars

-----------------------------------------------------------------------------
(* Properties of the design *)

\* ---- TTI accumulator
BufOnlyInExtension   == ~inExt => buf = <<>> /\ nblk = 0
BeginLeEnd           == \A k \in 1..Len(subs) : 0 <= subs[k].b /\ subs[k].b <= subs[k].e   \* given TCI <= TCO in BLOCKS
TtiFoldAgrees        == RunBlocks(hist, ENV, AllOn) = SNow
InputWellFormed      == SnWellFormed(hist)
EveryTerminalCounted == Len(subs) <= Cardinality({k \in 1..Len(hist) : Kind(hist[k], AllOn) = "terminal"})
SetsPartition ==
  /\ \A k \in 1..Len(subs) : (subs[k].cs = 0) = (subs[k].set = 0)
  /\ \A k \in 1..Len(subs) : subs[k].set # 0 =>
        /\ subs[k].set \in 1..Len(sets)
        /\ \E j \in 1..Len(sets[subs[k].set]) : sets[subs[k].set][j] = k
  /\ \A q \in 1..Len(sets) : \A j \in 1..Len(sets[q]) :
        /\ subs[sets[q][j]].set = q
        /\ j > 1 => sets[q][j] = sets[q][j - 1] + 1 /\ subs[sets[q][j]].cs \in {2, 3}   \* members are consecutive subtitles
        /\ j < Len(sets[q]) => subs[sets[q][j]].cs \in {1, 2}                          \* nothing follows the last member
  /\ open => sets # <<>>
\* a set is open exactly while the last emitted subtitle is a first or intermediate member
OpenIffSetContinues == open = (subs # <<>> /\ subs[Len(subs)].cs \in {1, 2})
IsPrefix(a, c) == Len(a) <= Len(c) /\ SubSeq(c, 1, Len(a)) = a
EmitOnlyOnTerminal == [][subs' # subs => last' = "emit" /\ ~inExt' /\ Len(subs') = Len(subs) + 1 /\ IsPrefix(subs, subs')]_vars
NeverEmitWhileAccumulating == [][last' = "ext" => subs' = subs /\ sets' = sets /\ inExt' /\ IsPrefix(buf, buf')]_vars
SkippedLeaveNoTrace == [][last' \in {"user", "reserved", "comment"} => UNCHANGED <<inExt, buf, nblk, subs, sets, open>>]_vars
SetsGrowMonotonically ==
  [][/\ Len(sets') >= Len(sets)
     /\ \A q \in 1..Len(sets) : IsPrefix(sets[q], sets'[q])
     /\ \A q \in 1..(Len(sets) - 1) : sets'[q] = sets[q]]_vars            \* only the open (last) set grows
ExtensionConcatenates ==
  [][last' = "emit" => LET s2 == subs'[Len(subs')] b2 == hist'[Len(hist')] IN
                       s2.tf = buf \o UpToFiller(b2.tf) /\ s2.n = nblk + 1]_vars

\* ---- text-field pen
TfFoldAgrees     == MODE = "tf" => pen = TfRun(done, tmode)
FillerStops      == MODE = "tf" => TfRun(done, tmode).out = TfRun(UpToFiller(done), tmode).out
FirstGapNone     == pen.out # <<>> => pen.out[1].gap = 0
GapIsBreakIffRowChanges ==
  \A k \in 2..Len(pen.out) : (pen.out[k].gap = 3) = (pen.out[k].row > pen.out[k - 1].row)
RowsMonotone     == \A k \in 2..Len(pen.out) : pen.out[k].row >= pen.out[k - 1].row
MarkNeedsDiacritic == \A k \in 1..Len(pen.out) : pen.out[k].mark > 0 => tmode.cct = "00"   \* only ISO 6937 composes
NothingAfterFiller == [][pen.stop => pen' = pen]_vars
CellCarriesPen   == [][Len(pen'.out) > Len(pen.out) =>
                        LET c == pen'.out[Len(pen'.out)] IN
                        /\ Len(pen'.out) = Len(pen.out) + 1
                        /\ c.fg = pen.fg /\ c.bg = pen.bg /\ c.it = pen.it /\ c.ul = pen.ul /\ c.dh = pen.dh
                        /\ pen'.fg = pen.fg /\ pen'.bg = pen.bg /\ pen'.it = pen.it /\ pen'.ul = pen.ul]_vars
IsNewlineStep == MODE = "tf" /\ ~pen.stop /\ done' # done /\ done'[Len(done')] = NEWLINE
TeletextRowStartsDefault ==
  [][IsNewlineStep /\ tmode.tt => pen'.fg = 7 /\ pen'.bg = 0 /\ ~pen'.it /\ ~pen'.ul /\ ~pen'.dh /\ pen'.row = pen.row + 1]_vars
OpenKeepsPenAcrossRows ==
  [][IsNewlineStep /\ ~tmode.tt => pen'.fg = pen.fg /\ pen'.bg = pen.bg /\ pen'.it = pen.it /\ pen'.ul = pen.ul
                                   /\ pen'.row = pen.row + 1]_vars
NewBackgroundTakesForeground ==
  [][MODE = "tf" /\ ~pen.stop /\ done' # done /\ done'[Len(done')] = 29 => pen'.bg = pen.fg /\ pen'.fg = pen.fg]_vars
=============================================================================
