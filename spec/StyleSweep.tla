-------------------------------- MODULE StyleSweep --------------------------------
(* Design-level model for Styles.tla (property C03): a small state machine whose Init picks one styled
   document out of a bounded family and whose Step moves a time cursor over a grid of ticks, so that
   animation steps become active and inactive.  TLC checks, on the SPEC, that style resolution has the
   properties one expects of TTML2 sec. 10.4.4 (existence, nearest-specifier inheritance, no leaking of
   non-inherited properties, component-wise text decoration, font size chains, root-relative lengths,
   position inside the root container, padding axes, resolved emphasis/outline colours, changes only at
   animation boundaries).  The reachable states (case, ti) are dumped and replayed into the implementation.

   Fams is a sequence of families (generated MC module, harness/styles_fam.py); a family is a record
     skel      [n, kind, parent, b, e, rb, re]   the tree (one region r1; node 1 is the body)
     axes      sequence of [p, vals, lv]: property p takes, on level i, nothing (0) or vals[c] for c \in lv[i];
               level 1 is the region, level i > 1 is content node i - 1
     anim      set of sequences of steps [lvl, ax, vi, b, e] (value vals[vi] of axis ax on level lvl)
     ini       set of sequences of [ax, vi]     <initial> overrides
     geos      set of [cell, px]                cell / pixel resolutions
     times     the ticks visited
     focus     the properties the invariants look at (the axes' properties and those that depend on them)
     full      TRUE: existence / root-relative lengths are checked for all applicable properties, not only focus *)
EXTENDS Styles

CONSTANTS Fams

RECURSIVE Sels(_, _)
Sels(a, i) == IF i = 0 THEN {<<>>} ELSE {Append(s, x) : s \in Sels(a, i - 1), x \in a.lv[i]}
RECURSIVE AllSels(_, _)
AllSels(f, j) == IF j = 0 THEN {<<>>} ELSE {Append(ss, s) : ss \in AllSels(f, j - 1), s \in Sels(f.axes[j], f.skel.n + 1)}

RECURSIVE StyCat(_, _, _, _)
StyCat(f, ss, i, j) ==
  IF j = 0 THEN <<>>
  ELSE StyCat(f, ss, i, j - 1) \o (IF ss[j][i] = 0 THEN <<>> ELSE <<[p |-> f.axes[j].p, v |-> f.axes[j].vals[ss[j][i]]]>>)

RECURSIVE SanCat(_, _, _, _)
SanCat(f, an, i, j) ==
  IF j = 0 THEN <<>>
  ELSE SanCat(f, an, i, j - 1) \o (IF an[j].lvl # i THEN <<>>
                                   ELSE <<[p |-> f.axes[an[j].ax].p, v |-> f.axes[an[j].ax].vals[an[j].vi], b |-> an[j].b, e |-> an[j].e]>>)

MkDoc(f, ss, an, io, g) ==
  [n |-> f.skel.n, kind |-> f.skel.kind, parent |-> f.skel.parent, b |-> f.skel.b, e |-> f.skel.e,
   nr |-> 1, rb |-> <<f.skel.rb>>, re |-> <<f.skel.re>>,
   sty  |-> [k \in 1..f.skel.n |-> StyCat(f, ss, k + 1, Len(f.axes))],
   san  |-> [k \in 1..f.skel.n |-> SanCat(f, an, k + 1, Len(an))],
   rsty |-> <<StyCat(f, ss, 1, Len(f.axes))>>,
   rsan |-> <<SanCat(f, an, 1, Len(an))>>,
   ini  |-> [j \in 1..Len(io) |-> [p |-> f.axes[io[j].ax].p, v |-> f.axes[io[j].ax].vals[io[j].vi]]],
   cell |-> g.cell, px |-> g.px]

Cases(f) == {MkDoc(f, ss, an, io, g) : ss \in AllSels(f, Len(f.axes)), an \in f.anim, io \in f.ini, g \in f.geos}

VARIABLES fi, case, ti
vars == <<fi, case, ti>>

TimeSeq == Fams[fi].times
Focus == Fams[fi].focus
FullCheck == Fams[fi].full

Init == \E f \in 1..Len(Fams) : fi = f /\ case \in Cases(Fams[f]) /\ ti = 1
Step == ti < Len(TimeSeq) /\ ti' = ti + 1 /\ case' = case /\ fi' = fi
Spec == Init /\ [][Step]_vars

Cx(i) == [doc |-> case, R |-> 1, t |-> TimeSeq[i]]
cx == Cx(ti)
Nodes == {0} \cup {k \in 1..case.n : case.kind[k] \notin {"text", "br"}}
FocusOf(k) == IF FullCheck THEN Applicable(KindOf(cx, k)) ELSE Focus \cap Applicable(KindOf(cx, k))

-----------------------------------------------------------------------------
WellTyped(p, c) ==
  LET cls == PropTable[p].cls IN
  CASE cls = "opaque" -> c.k = "tok"
    [] cls \in {"fontSize", "disparity"} -> c.k = "len"
    [] cls = "lenFS" -> c.k \in {"tok", "len"}
    [] cls = "extent" -> c.k = "ext"     [] cls = "origin" -> c.k = "org"   [] cls = "position" -> c.k = "pos"
    [] cls = "padding" -> c.k = "pad"    [] cls = "rubyReserve" -> c.k \in {"tok", "rr"}
    [] cls = "textOutline" -> c.k \in {"tok", "to"}  [] cls = "textShadow" -> c.k \in {"tok", "ts"}
    [] cls = "textEmphasis" -> c.k \in {"tok", "te"} [] cls = "textDecoration" -> c.k = "td"

\* every applicable property of every element has a computed value of the right shape
Inv_Exists == \A k \in Nodes : \A p \in FocusOf(k) : WellTyped(p, Comp(cx, k, p))

\* every computed length is root-container relative
Inv_RootRelative == \A k \in Nodes : \A p \in FocusOf(k) : \A l \in LensOf(Comp(cx, k, p)) : l.u \in {"rh", "rw"}

\* (both at once, so that TLC derives each computed value once)
Inv_ExistsRootRelative ==
  \A k \in Nodes : \A p \in FocusOf(k) :
    LET c == Comp(cx, k, p) IN WellTyped(p, c) /\ \A l \in LensOf(c) : l.u \in {"rh", "rw"}

\* an inheritable property has the value of the nearest ancestor-or-self that specifies it at t, else the initial one
RECURSIVE NearestSpec(_, _, _)
NearestSpec(c, k, p) ==
  LET sv == Specified(c, k, p) IN
  IF sv # NoVal THEN sv ELSE IF k = 0 THEN NoVal ELSE NearestSpec(c, Par(c, k), p)

Inv_InheritedOpaque ==
  \A k \in Nodes : \A p \in Focus :
    (PropTable[p].inh /\ PropTable[p].cls = "opaque") =>
       LET ns == NearestSpec(cx, k, p) IN
       Comp(cx, k, p) = IF ns # NoVal THEN ns
                        ELSE IF p = "Direction" /\ WMImplied(cx) # NoVal THEN WMImplied(cx)
                        ELSE Initial(case, p)

\* a non-inheritable property never leaks to children: own specified value, else the initial one
Inv_NoLeak ==
  \A k \in Nodes : \A p \in Focus :
    (~PropTable[p].inh /\ PropTable[p].cls = "opaque") =>
       Comp(cx, k, p) = IF Specified(cx, k, p) # NoVal THEN Specified(cx, k, p) ELSE Initial(case, p)

\* text decoration: each component comes from the nearest ancestor-or-self that specifies that component
RECURSIVE NearestTd(_, _, _)
NearestTd(c, k, f) ==
  LET sv == Specified(c, k, "TextDecoration") IN
  IF k = 0 THEN (IF sv # NoVal THEN sv[f] ELSE Initial(c.doc, "TextDecoration")[f])
  ELSE IF sv # NoVal /\ sv[f] # "N" THEN sv[f] ELSE NearestTd(c, Par(c, k), f)
Inv_TextDecoration ==
  "TextDecoration" \in Focus => \A k \in Nodes : \A f \in {"u", "l", "o"} : TD(cx, k)[f] = NearestTd(cx, k, f)

\* font size: positive; absolute units do not depend on ancestors; a percentage is that percentage of the parent's
\* computed size (of one cell on a region); unspecified = the parent's (half of it for ruby text)
Inv_FontSize ==
  "FontSize" \in Focus => \A k \in Nodes :
    LET f  == FS(cx, k)
        sv == Specified(cx, k, "FontSize")
        pf == IF k = 0 THEN CellH(case) ELSE FS(cx, Par(cx, k))
    IN  /\ f.n > 0 /\ f.d > 0
        /\ (sv # NoVal /\ sv.u \in {"c", "px", "rh", "rw"}) => f = Resolve(sv, RootH, RootH, CellH(case), PxH(case))
        /\ (sv # NoVal /\ sv.u = "pct") => QMul(QOf(f), <<100, 1>>) = QMul(QOf(sv), QOf(pf))
        /\ (sv # NoVal /\ sv.u = "em") => QOf(f) = QMul(QOf(sv), QOf(pf))
        /\ (sv = NoVal /\ k # 0) => (IF RubyHalf(cx, k) THEN QMul(QOf(f), <<2, 1>>) = QOf(pf) ELSE f = pf)

\* a percentage position between 0 and 100 keeps a region that fits inside the root container inside it, and the
\* snapshot's position is its origin
InUnit(q) == QLe(<<0, 1>>, q) /\ QLe(q, <<100, 1>>)
Inv_Position ==
  "Position" \in Focus =>
    LET pv  == PositionResolved(cx, 0)
        ext == Comp(cx, 0, "Extent")
        o   == Comp(cx, 0, "Origin")
        pc  == Comp(cx, 0, "Position")
    IN  /\ pc.x = o.x /\ pc.y = o.y /\ pc.he = "left" /\ pc.ve = "top"
        /\ (pv # NoVal /\ pv.x.u = "pct" /\ InUnit(QOf(pv.x)) /\ InUnit(QOf(ext.w)))
              => (QLe(<<0, 1>>, QOf(o.x)) /\ QLe(QOf(o.x), QSub(<<100, 1>>, QOf(ext.w))))
        /\ (pv # NoVal /\ pv.y.u = "pct" /\ InUnit(QOf(pv.y)) /\ InUnit(QOf(ext.h)))
              => (QLe(<<0, 1>>, QOf(o.y)) /\ QLe(QOf(o.y), QSub(<<100, 1>>, QOf(ext.h))))
        \* an offset of 0 from the right / bottom edge puts the region flush with that edge
        /\ (pv # NoVal /\ pv.he = "right" /\ pv.x.n = 0) => QOf(o.x) = QSub(<<100, 1>>, QOf(ext.w))
        /\ (pv # NoVal /\ pv.ve = "bottom" /\ pv.y.n = 0) => QOf(o.y) = QSub(<<100, 1>>, QOf(ext.h))

\* padding: percentages, cells and pixels are measured along the axis the writing mode assigns to the edge
Inv_PaddingAxis ==
  "Padding" \in Focus =>
    LET sv   == Specified(cx, 0, "Padding")
        v    == IF sv # NoVal THEN sv ELSE Initial(case, "Padding")
        c    == Comp(cx, 0, "Padding")
        vert == IsVertical(Comp(cx, 0, "WritingMode"))
        Ax(inp, out, horiz) == inp.u \in {"pct", "c", "px"} => out.u = (IF horiz THEN "rw" ELSE "rh")
    IN  /\ Ax(v.before, c.before, vert) /\ Ax(v.after, c.after, vert)
        /\ Ax(v.start, c.start, ~vert) /\ Ax(v.end, c.end, ~vert)

\* emphasis, outline and shadows never keep an unresolved colour or the style auto
Inv_ColoursResolved ==
  \A k \in Nodes \ {0} : case.kind[k] \in SpanLike =>
    /\ ("TextEmphasis" \in Focus \/ FullCheck) => LET c == Comp(cx, k, "TextEmphasis") IN c.k = "te" => (c.style # "auto" /\ c.col # "")
    /\ ("TextOutline" \in Focus \/ FullCheck) => LET c == Comp(cx, k, "TextOutline") IN c.k = "to" => c.col # ""
    /\ ("TextShadow" \in Focus \/ FullCheck) => LET c == Comp(cx, k, "TextShadow") IN c.k = "ts" => \A j \in 1..Len(c.sh) : c.sh[j].col # ""

\* the computed values change only where an animation step begins or ends
\* (looked at where the value matters: on the kinds it applies to, and everywhere when it is inherited)
Matters(k) == {p \in Focus : PropTable[p].inh \/ p \in Applicable(KindOf(cx, k))}
AllComp(i) == [k \in Nodes |-> [p \in Matters(k) |-> Comp(Cx(i), k, p)]]
Boundaries == UNION {StepTimes(NodeSan(cx, k), NodeB(cx, k), NodeE(cx, k)) : k \in Nodes}
ChangesOnlyAtStepBoundaries ==
  [][AllComp(ti') # AllComp(ti) => \E x \in Boundaries : TimeSeq[ti] < x /\ x <= TimeSeq[ti']]_vars
=============================================================================
