---------------------------------- MODULE Styles ----------------------------------
(* TTML2 sec. 10.4 style resolution (specified -> computed values) with the IMSC 1.1 property set,
   over the abstract documents of Ttml.tla extended with styles.  Property C03.

   Written from TTML2 sec. 10.2 (the style attributes: "Applies to", "Inherited", "Initial",
   "Percentages"), sec. 10.4.4 (style resolution: specified -> computed), sec. 10.2.x special
   semantics (direction, fontSize of ruby text, position/origin, textEmphasis, rubyReserve), TTML2
   sec. 13 (set: the value of a discrete animation step replaces the specified value while the step is
   active) and IMSC 1.1 sec. 8.4 / 10 (ebutts:linePadding, ebutts:multiRowAlign, itts:fillLineGap,
   root-container relative lengths rh/rw) - as restated by property C03 - NOT from isd.py.

   A styled document is a Ttml.tla document (n, kind, parent, b, e, nr, rb, re are used here) plus
     sty[k]   sequence of [p, v]        styles specified on content node k (at most one per property)
     san[k]   sequence of [p, v, b, e]  discrete animation steps of node k, in document order, times
                                         relative to the begin of node k (NoneT = unspecified)
     rsty[r], rsan[r]                   the same for region r
     ini      sequence of [p, v]        the document's <initial> overrides
     cell     <<rows, columns>>         ttp:cellResolution       px  <<width, height>>  root extent in pixels
   tts:display is one more opaque property here (the harness folds disp/anim/idisp of Ttml.tla into
   sty/san/ini).

   Values.  Every value is a record with a field k (so that any two values can be compared):
     [k |-> "tok", s |-> token]                        opaque value, compared for equality
     [k |-> "len", u |-> unit, n |-> num, d |-> den]   length; unit \in pct em c px rh rw; exact rational
     ext(w,h)  org(x,y)  pos(x,y,he,ve)  pad(before,end,after,start)  rr(pos,has,len)  to(col,th)
     ts(sh: sequence of [x,y,hasb,b,col])  te(style,col,pos)  td(u,l,o) with components "T" "F" "N"
   NoVal is "no value".  A colour that is left out is the token "".

   The context of every operator is cx = [doc, R, t]: the snapshot of region R (0 = the default region)
   at tick t.  Node 0 stands for the region itself: the body's parent in the snapshot.             *)
EXTENDS Ttml

NoVal == [k |-> "none"]
Tok(s) == [k |-> "tok", s |-> s]

-----------------------------------------------------------------------------
(* exact rationals <<n, d>>, d > 0, reduced.  TLC integers are 32 bit: products are cross-reduced first *)
AbsI(x) == IF x < 0 THEN -x ELSE x
RECURSIVE Gcd(_, _)
Gcd(a, b) == IF b = 0 THEN a ELSE Gcd(b, a % b)
Q(n, d) == LET g == Gcd(AbsI(n), d) IN <<n \div g, d \div g>>
QMul(a, b) == LET g1 == Gcd(AbsI(a[1]), b[2])
                  g2 == Gcd(AbsI(b[1]), a[2])
              IN  Q((a[1] \div g1) * (b[1] \div g2), (a[2] \div g2) * (b[2] \div g1))
QSub(a, b) == LET g == Gcd(a[2], b[2]) IN Q(a[1] * (b[2] \div g) - b[1] * (a[2] \div g), (a[2] \div g) * b[2])
QLe(a, b) == a[1] * b[2] <= b[1] * a[2]

Ln(u, q) == [k |-> "len", u |-> u, n |-> q[1], d |-> q[2]]
QOf(l) == Q(l.n, l.d)

\* a length expressed through a reference length: the result has the units of the reference
ScaleBy(v, ref) == Ln(ref.u, QMul(QOf(v), QOf(ref)))
\* TTML2 sec. 10.3.16 <length>: percentage, em, c, px resolved against the four references; rh and rw
\* are already root-container relative (IMSC 1.1)
Resolve(v, pctRef, emRef, cRef, pxRef) ==
  CASE v.u = "pct" -> Ln(pctRef.u, QMul(QMul(QOf(v), QOf(pctRef)), <<1, 100>>))
    [] v.u = "em"  -> ScaleBy(v, emRef)
    [] v.u = "c"   -> ScaleBy(v, cRef)
    [] v.u = "px"  -> ScaleBy(v, pxRef)
    [] OTHER       -> Ln(v.u, QOf(v))

\* one cell and one pixel, as root-container relative lengths (ttp:cellResolution = columns rows)
CellH(doc) == Ln("rh", Q(100, doc.cell[1]))
CellW(doc) == Ln("rw", Q(100, doc.cell[2]))
PxW(doc)   == Ln("rw", Q(100, doc.px[1]))
PxH(doc)   == Ln("rh", Q(100, doc.px[2]))
RootW == Ln("rw", <<100, 1>>)
RootH == Ln("rh", <<100, 1>>)

-----------------------------------------------------------------------------
(* The property table: [inh, kinds, init, cls].
   inh    TTML2 "Inherited: yes/no" (IMSC 1.1 for the ebutts/itts properties)
   kinds  the element kinds whose snapshot elements carry the property (IMSC 1.1 "applies to" as realised by
          the canonical model, doc/isd.md; the SHAPE rule itself is property C13)
   init   TTML2/IMSC "Initial" value
   cls    how the computed value is derived from the resolved one (TTML2 "Percentages", "Computed value")
   Each entry says whether it is INDEPENDENT (taken from the standards; the code must agree) or PINS
   the code (the standards leave it open / it is a convention of the canonical model).               *)

AllKinds == {"region", "body", "div", "p", "span", "ruby", "rb", "rt", "rp", "rbc", "rtc"}
SpanLike == {"span", "rb", "rt", "rp"}
Blocks   == {"body", "div", "p"} \cup SpanLike \cup {"ruby", "rbc", "rtc"}

Z(u) == [k |-> "len", u |-> u, n |-> 0, d |-> 1]
Pr(inh, kinds, init, cls) == [inh |-> inh, kinds |-> kinds, init |-> init, cls |-> cls]

PropTable == [
  \* INDEPENDENT: TTML2 10.2.2 not inherited, initial transparent, applies to all content and region
  BackgroundColor |-> Pr(FALSE, AllKinds, Tok("#00000000"), "opaque"),
  \* inherited (10.2.7); initial is implementation dependent in TTML2, IMSC 1.1 recommends white: PINS white
  Color           |-> Pr(TRUE, SpanLike, Tok("#ffffffff"), "opaque"),
  \* INDEPENDENT: inherited, initial ltr (10.2.8) + special semantics on regions, see WMImplied
  Direction       |-> Pr(TRUE, {"p"} \cup SpanLike \cup {"ruby", "rbc", "rtc"}, Tok("DirectionType.ltr"), "opaque"),
  \* INDEPENDENT: not inherited, initial 0 (10.2.9); computed to rw (horizontal offset): PINS the unit convention
  Disparity       |-> Pr(FALSE, {"region"}, Z("pct"), "disparity"),
  \* INDEPENDENT: 10.2.10
  Display         |-> Pr(FALSE, AllKinds, Tok("DisplayType.auto"), "opaque"),
  \* INDEPENDENT: 10.2.11
  DisplayAlign    |-> Pr(FALSE, {"region"}, Tok("DisplayAlignType.before"), "opaque"),
  \* INDEPENDENT: initial auto = the root container (10.2.12): 100% x 100%
  Extent          |-> Pr(FALSE, {"region"}, [k |-> "ext", w |-> [k |-> "len", u |-> "pct", n |-> 100, d |-> 1],
                                                         h |-> [k |-> "len", u |-> "pct", n |-> 100, d |-> 1]], "extent"),
  \* INDEPENDENT: IMSC 1.1 itts:fillLineGap inherited, initial false
  FillLineGap     |-> Pr(TRUE, {"p"}, Tok("false"), "opaque"),
  \* INDEPENDENT: inherited, initial default (10.2.13)
  FontFamily      |-> Pr(TRUE, {"p"} \cup SpanLike, Tok("(GenericFontFamilyType.default)"), "opaque"),
  \* INDEPENDENT: inherited, initial 1c, percentages relative to the parent's font size (10.2.15)
  FontSize        |-> Pr(TRUE, {"p"} \cup SpanLike, [k |-> "len", u |-> "c", n |-> 1, d |-> 1], "fontSize"),
  FontStyle       |-> Pr(TRUE, {"p"} \cup SpanLike, Tok("FontStyleType.normal"), "opaque"),        \* INDEPENDENT
  FontWeight      |-> Pr(TRUE, {"p"} \cup SpanLike, Tok("FontWeightType.normal"), "opaque"),       \* INDEPENDENT
  \* INDEPENDENT: inherited, initial normal, percentages relative to this element's font size (10.2.22)
  LineHeight      |-> Pr(TRUE, {"p"}, Tok("SpecialValues.normal"), "lenFS"),
  \* IMSC 1.1 ebutts:linePadding inherited, initial 0c; c resolved against the cell HEIGHT: PINS (property C03 text)
  LinePadding     |-> Pr(TRUE, {"p"}, Z("c"), "lenFS"),
  LuminanceGain   |-> Pr(FALSE, {"region"}, Tok("num:1"), "opaque"),                                \* INDEPENDENT 10.2.24
  MultiRowAlign   |-> Pr(TRUE, {"p"}, Tok("MultiRowAlignType.auto"), "opaque"),                     \* INDEPENDENT IMSC 1.1
  Opacity         |-> Pr(FALSE, AllKinds, Tok("num:1"), "opaque"),                                  \* INDEPENDENT 10.2.25
  \* INDEPENDENT: initial auto = the root container's origin (10.2.26): 0% 0%
  Origin          |-> Pr(FALSE, {"region"}, [k |-> "org", x |-> Z("pct"), y |-> Z("pct")], "origin"),
  Overflow        |-> Pr(FALSE, {"region"}, Tok("OverflowType.hidden"), "opaque"),                  \* INDEPENDENT 10.2.27
  \* INDEPENDENT: not inherited, initial 0 (10.2.28); only regions carry it in IMSC text profile snapshots
  Padding         |-> Pr(FALSE, {"region"}, [k |-> "pad", before |-> Z("pct"), end |-> Z("pct"), after |-> Z("pct"), start |-> Z("pct")], "padding"),
  \* 10.2.29: initial "top left" = the origin; the snapshot repeats the origin as position: PINS doc/isd.md
  Position        |-> Pr(FALSE, {"region"}, NoVal, "position"),
  RubyAlign       |-> Pr(TRUE, {"ruby"}, Tok("RubyAlignType.center"), "opaque"),                    \* INDEPENDENT 10.2.31
  RubyPosition    |-> Pr(TRUE, {"rt", "rtc"}, Tok("AnnotationPositionType.outside"), "opaque"),      \* INDEPENDENT 10.2.32
  RubyReserve     |-> Pr(TRUE, {"p"}, Tok("SpecialValues.none"), "rubyReserve"),                    \* INDEPENDENT 10.2.33
  Shear           |-> Pr(TRUE, {"p"}, Tok("num:0"), "opaque"),                                      \* INDEPENDENT 10.2.34
  ShowBackground  |-> Pr(FALSE, {"region"}, Tok("ShowBackgroundType.always"), "opaque"),            \* INDEPENDENT 10.2.35
  TextAlign       |-> Pr(TRUE, {"p"}, Tok("TextAlignType.start"), "opaque"),                        \* INDEPENDENT 10.2.36
  TextCombine     |-> Pr(TRUE, SpanLike, Tok("TextCombineType.none"), "opaque"),                    \* INDEPENDENT 10.2.37
  \* INDEPENDENT: inherited, initial none (10.2.38); the components are inherited one by one (model convention
  \* for "noUnderline" etc.: each of underline / lineThrough / overline is on, off or unspecified)
  TextDecoration  |-> Pr(TRUE, SpanLike, [k |-> "td", u |-> "F", l |-> "F", o |-> "F"], "textDecoration"),
  TextEmphasis    |-> Pr(TRUE, SpanLike, Tok("SpecialValues.none"), "textEmphasis"),                \* INDEPENDENT 10.2.39
  TextOutline     |-> Pr(TRUE, SpanLike, Tok("SpecialValues.none"), "textOutline"),                 \* INDEPENDENT 10.2.41
  TextShadow      |-> Pr(TRUE, SpanLike, Tok("SpecialValues.none"), "textShadow"),                  \* INDEPENDENT 10.2.42
  UnicodeBidi     |-> Pr(FALSE, {"p"} \cup SpanLike, Tok("UnicodeBidiType.normal"), "opaque"),      \* INDEPENDENT 10.2.43
  Visibility      |-> Pr(TRUE, AllKinds, Tok("VisibilityType.visible"), "opaque"),                  \* INDEPENDENT 10.2.44
  WrapOption      |-> Pr(TRUE, SpanLike, Tok("WrapOptionType.wrap"), "opaque"),                     \* INDEPENDENT 10.2.45
  WritingMode     |-> Pr(FALSE, {"region"}, Tok("WritingModeType.lrtb"), "opaque")                  \* INDEPENDENT 10.2.46
]
AllProps == DOMAIN PropTable
Applicable(kind) == {p \in AllProps : kind \in PropTable[p].kinds}

-----------------------------------------------------------------------------
(* specified values: the last active animation step wins, else the specified style *)

KindOf(cx, k) == IF k = 0 THEN "region" ELSE cx.doc.kind[k]
Par(cx, k) == cx.doc.parent[k]                \* 0 for the body: its parent in the snapshot is the region
NodeSty(cx, k) == IF k = 0 THEN (IF cx.R = 0 THEN <<>> ELSE cx.doc.rsty[cx.R]) ELSE cx.doc.sty[k]
NodeSan(cx, k) == IF k = 0 THEN (IF cx.R = 0 THEN <<>> ELSE cx.doc.rsan[cx.R]) ELSE cx.doc.san[k]
NodeB(cx, k) == IF k = 0 THEN (IF cx.R = 0 THEN 0 ELSE Off(cx.doc.rb[cx.R])) ELSE AbsB(cx.doc, k)
NodeE(cx, k) == IF k = 0 THEN (IF cx.R = 0 THEN NoneT ELSE cx.doc.re[cx.R]) ELSE AbsE(cx.doc, k)

\* Ttml!LastActive restricted to the steps of property p: step times are offsets from the element's OWN begin,
\* the step ends with the element; of several active steps the last in document order wins
RECURSIVE LastStep(_, _, _, _, _, _)
LastStep(steps, j, p, ob, oe, t) ==
  IF j = 0 THEN NoVal
  ELSE LET s  == steps[j]
           sb == ob + Off(s.b)
           se == MinOpt(IF s.e = NoneT THEN NoneT ELSE ob + s.e, oe)
       IN  IF s.p = p /\ InInterval(sb, se, t) THEN s.v ELSE LastStep(steps, j - 1, p, ob, oe, t)

RECURSIVE Lookup(_, _, _)
Lookup(sq, j, p) == IF j = 0 THEN NoVal ELSE IF sq[j].p = p THEN sq[j].v ELSE Lookup(sq, j - 1, p)

Animated(cx, k, p) == LastStep(NodeSan(cx, k), Len(NodeSan(cx, k)), p, NodeB(cx, k), NodeE(cx, k), cx.t)
Specified(cx, k, p) ==
  LET a == Animated(cx, k, p)
  IN  IF a # NoVal THEN a ELSE Lookup(NodeSty(cx, k), Len(NodeSty(cx, k)), p)

InitialOverride(doc, p) == Lookup(doc.ini, Len(doc.ini), p)
Initial(doc, p) == LET o == InitialOverride(doc, p) IN IF o # NoVal THEN o ELSE PropTable[p].init

-----------------------------------------------------------------------------
(* font size (TTML2 10.2.15): % and em of the PARENT's computed font size - for the region, which has no
   parent, of one cell; c of the cell height, px of the pixel height.  Not specified: inherited, except that
   ruby text (rt outside an rtc) and ruby text containers take half of it (10.2.15 special semantics).      *)
RubyHalf(cx, k) == cx.doc.kind[k] = "rtc" \/ (cx.doc.kind[k] = "rt" /\ KindOf(cx, Par(cx, k)) # "rtc")

RECURSIVE FS(_, _)
FS(cx, k) ==
  LET sv  == Specified(cx, k, "FontSize")
      ref == IF k = 0 THEN CellH(cx.doc) ELSE FS(cx, Par(cx, k))
  IN  IF sv # NoVal THEN Resolve(sv, ref, ref, CellH(cx.doc), PxH(cx.doc))
      ELSE IF k = 0 THEN Resolve(Initial(cx.doc, "FontSize"), ref, ref, CellH(cx.doc), PxH(cx.doc))
      ELSE IF RubyHalf(cx, k) THEN Ln(ref.u, QMul(QOf(ref), <<1, 2>>))
      ELSE ref

\* lengths relative to this element's font size (lineHeight, linePadding, outline thickness, shadow offsets ...)
\* (fs is the element's computed font size, handed in so that it is derived once per value)
LenOf(cx, fs, v) == Resolve(v, fs, fs, CellH(cx.doc), PxH(cx.doc))
LenFS(cx, k, v) == LenOf(cx, FS(cx, k), v)
\* horizontal / vertical measures of the root container
LenW(cx, k, v) == Resolve(v, RootW, FS(cx, k), CellW(cx.doc), PxW(cx.doc))
LenH(cx, k, v) == Resolve(v, RootH, FS(cx, k), CellH(cx.doc), PxH(cx.doc))

-----------------------------------------------------------------------------
(* text decoration (10.2.38): inherited component by component *)
RECURSIVE TD(_, _)
TD(cx, k) ==
  LET sv == Specified(cx, k, "TextDecoration") IN
  IF k = 0 THEN (IF sv # NoVal THEN sv ELSE Initial(cx.doc, "TextDecoration"))
  ELSE LET pv == TD(cx, Par(cx, k)) IN
       IF sv = NoVal THEN pv
       ELSE [k |-> "td", u |-> IF sv.u = "N" THEN pv.u ELSE sv.u,
                         l |-> IF sv.l = "N" THEN pv.l ELSE sv.l,
                         o |-> IF sv.o = "N" THEN pv.o ELSE sv.o]

-----------------------------------------------------------------------------
(* direction on a region (10.2.8 special semantics): when the region does not specify tts:direction, a
   specified writing mode lrtb / rltb implies ltr / rtl.  "Specified" is as everywhere: an active animation
   step, else the attribute.  (Whether an <initial> writing mode should imply a direction too is not stated by
   the property: the document's initial direction is used then - this PINS the code.)                      *)
WMImplied(cx) ==
  LET w == Specified(cx, 0, "WritingMode") IN
  IF w = NoVal THEN NoVal
  ELSE IF w.s = "WritingModeType.lrtb" THEN Tok("DirectionType.ltr")
  ELSE IF w.s = "WritingModeType.rltb" THEN Tok("DirectionType.rtl")
  ELSE NoVal

IsVertical(wm) == wm.s \in {"WritingModeType.tbrl", "WritingModeType.tblr"}

-----------------------------------------------------------------------------
RECURSIVE Comp(_, _, _)

\* extent (10.2.12): width against the root width / cell width / pixel width -> rw, height likewise -> rh
ExtentOf(cx, k, v) == [k |-> "ext", w |-> LenW(cx, k, v.w), h |-> LenH(cx, k, v.h)]

\* position (10.2.29, CSS background-position): a percentage refers to the space left by the extent,
\* an offset from the right / bottom edge is measured from there
PositionResolved(cx, k) ==
  LET sv == Specified(cx, k, "Position") IN IF sv # NoVal THEN sv ELSE InitialOverride(cx.doc, "Position")

OriginFromPosition(cx, k, pv) ==
  LET ext   == Comp(cx, k, "Extent")
      freeW == QSub(<<100, 1>>, QOf(ext.w))
      freeH == QSub(<<100, 1>>, QOf(ext.h))
      offX  == IF pv.x.u = "pct" THEN QMul(QMul(QOf(pv.x), freeW), <<1, 100>>) ELSE QOf(LenW(cx, k, pv.x))
      offY  == IF pv.y.u = "pct" THEN QMul(QMul(QOf(pv.y), freeH), <<1, 100>>) ELSE QOf(LenH(cx, k, pv.y))
  IN  [k |-> "org", x |-> Ln("rw", IF pv.he = "left" THEN offX ELSE QSub(freeW, offX)),
                    y |-> Ln("rh", IF pv.ve = "top" THEN offY ELSE QSub(freeH, offY))]

\* Outside the property's domain: a position that comes from an <initial> only while the region itself specifies an
\* origin (TTML2 does not say which of the two places the region) - such values are skipped and counted, not judged
PositionContested(cx, k) ==
  Specified(cx, k, "Position") = NoVal /\ InitialOverride(cx.doc, "Position") # NoVal /\ Specified(cx, k, "Origin") # NoVal

\* origin (10.2.26): overridden by a position; else x against the root width, y against the root height
OriginOf(cx, k) ==
  LET pv == PositionResolved(cx, k) IN
  IF pv # NoVal THEN OriginFromPosition(cx, k, pv)
  ELSE LET sv == Specified(cx, k, "Origin")
           ov == IF sv # NoVal THEN sv ELSE Initial(cx.doc, "Origin")
       IN  [k |-> "org", x |-> LenW(cx, k, ov.x), y |-> LenH(cx, k, ov.y)]

\* padding (10.2.28): before/after lie on the block progression axis, start/end on the inline axis; percentages
\* refer to the extent of the region along that axis
PaddingOf(cx, k, v) ==
  LET vert == IsVertical(Comp(cx, k, "WritingMode"))
      ext  == Comp(cx, k, "Extent")
      fs   == FS(cx, k)
      AlongH(x) == Resolve(x, ext.h, fs, CellH(cx.doc), PxH(cx.doc))
      AlongW(x) == Resolve(x, ext.w, fs, CellW(cx.doc), PxW(cx.doc))
  IN  [k |-> "pad", before |-> IF vert THEN AlongW(v.before) ELSE AlongH(v.before),
                    after  |-> IF vert THEN AlongW(v.after) ELSE AlongH(v.after),
                    start  |-> IF vert THEN AlongH(v.start) ELSE AlongW(v.start),
                    end    |-> IF vert THEN AlongH(v.end) ELSE AlongW(v.end)]

\* the computed value of a resolved (specified or initial) value v of property p on node k
Compute(cx, k, p, v) ==
  LET cls == PropTable[p].cls
      fs  == FS(cx, k)
      col == Comp(cx, k, "Color").s
  IN
  CASE cls = "opaque"    -> v
    [] cls = "lenFS"     -> IF v.k = "tok" THEN v ELSE LenOf(cx, fs, v)
    [] cls = "disparity" -> LenW(cx, k, v)
    [] cls = "extent"    -> ExtentOf(cx, k, v)
    [] cls = "padding"   -> PaddingOf(cx, k, v)
    \* rubyReserve (10.2.33): a missing length stands for half the font size (PINS: 50% of the font size)
    [] cls = "rubyReserve" ->
         IF v.k = "tok" THEN v
         ELSE [k |-> "rr", pos |-> v.pos, has |-> 1,
               len |-> IF v.has = 1 THEN LenOf(cx, fs, v.len) ELSE LenOf(cx, fs, [k |-> "len", u |-> "pct", n |-> 50, d |-> 1])]
    \* textOutline (10.2.41): the colour defaults to the computed tts:color; thickness relative to the font size
    [] cls = "textOutline" ->
         IF v.k = "tok" THEN v ELSE [k |-> "to", col |-> IF v.col # "" THEN v.col ELSE col, th |-> LenOf(cx, fs, v.th)]
    [] cls = "textShadow" ->
         IF v.k = "tok" THEN v
         ELSE [k |-> "ts", sh |-> [j \in 1..Len(v.sh) |->
                 [x |-> LenOf(cx, fs, v.sh[j].x), y |-> LenOf(cx, fs, v.sh[j].y), hasb |-> v.sh[j].hasb,
                  b |-> IF v.sh[j].hasb = 1 THEN LenOf(cx, fs, v.sh[j].b) ELSE v.sh[j].b,
                  col |-> IF v.sh[j].col # "" THEN v.sh[j].col ELSE col]]]
    \* textEmphasis (10.2.39): colour defaults to tts:color; auto = filled circle (horizontal) / filled sesame (vertical)
    [] cls = "textEmphasis" ->
         IF v.k = "tok" THEN v
         ELSE [k |-> "te", pos |-> v.pos, col |-> IF v.col # "" THEN v.col ELSE col,
               style |-> IF v.style # "auto" THEN v.style
                         ELSE IF IsVertical(Comp(cx, 0, "WritingMode")) THEN "filled sesame" ELSE "filled circle"]

Comp(cx, k, p) ==
  LET pt == PropTable[p] IN
  CASE pt.cls = "fontSize"       -> FS(cx, k)
    [] pt.cls = "textDecoration" -> TD(cx, k)
    [] pt.cls = "origin"         -> OriginOf(cx, k)
    \* the snapshot's position repeats the computed origin, measured from the left and top edges
    [] pt.cls = "position"       -> LET o == OriginOf(cx, k) IN [k |-> "pos", x |-> o.x, y |-> o.y, he |-> "left", ve |-> "top"]
    [] OTHER ->
         LET sv == Specified(cx, k, p) IN
         IF sv # NoVal THEN Compute(cx, k, p, sv)
         ELSE IF pt.inh /\ k # 0 THEN Comp(cx, Par(cx, k), p)         \* the parent's COMPUTED value
         ELSE IF p = "Direction" /\ k = 0 /\ WMImplied(cx) # NoVal THEN WMImplied(cx)
         ELSE Compute(cx, k, p, Initial(cx.doc, p))

-----------------------------------------------------------------------------
(* comparison with observed values: lengths are observed as [k |-> "olen", u, s] with s = round(value * 10^4) *)
SCALE == 10000
TOL == 2
Scaled(l) == (l.n \div l.d) * SCALE + ((l.n % l.d) * SCALE) \div l.d
LenEq(c, o) == o.k = "olen" /\ o.u = c.u /\ AbsI(Scaled(c) - o.s) <= TOL
\* a text decoration component that nobody specified ("N") is an absent decoration, like "F"
TdEq(a, b) == (IF a = "N" THEN "F" ELSE a) = (IF b = "N" THEN "F" ELSE b)

ValEq(c, o) ==
  CASE c.k = "tok" -> o.k = "tok" /\ o.s = c.s
    [] c.k = "len" -> LenEq(c, o)
    [] c.k = "ext" -> o.k = "ext" /\ LenEq(c.w, o.w) /\ LenEq(c.h, o.h)
    [] c.k = "org" -> o.k = "org" /\ LenEq(c.x, o.x) /\ LenEq(c.y, o.y)
    [] c.k = "pos" -> o.k = "pos" /\ LenEq(c.x, o.x) /\ LenEq(c.y, o.y) /\ o.he = c.he /\ o.ve = c.ve
    [] c.k = "pad" -> o.k = "pad" /\ LenEq(c.before, o.before) /\ LenEq(c.end, o.end) /\ LenEq(c.after, o.after) /\ LenEq(c.start, o.start)
    [] c.k = "rr"  -> o.k = "rr" /\ o.pos = c.pos /\ o.has = 1 /\ LenEq(c.len, o.len)
    [] c.k = "to"  -> o.k = "to" /\ o.col = c.col /\ LenEq(c.th, o.th)
    [] c.k = "ts"  -> o.k = "ts" /\ Len(o.sh) = Len(c.sh) /\ \A j \in 1..Len(c.sh) :
                        /\ LenEq(c.sh[j].x, o.sh[j].x) /\ LenEq(c.sh[j].y, o.sh[j].y) /\ o.sh[j].hasb = c.sh[j].hasb
                        /\ (c.sh[j].hasb = 1 => LenEq(c.sh[j].b, o.sh[j].b)) /\ o.sh[j].col = c.sh[j].col
    [] c.k = "te"  -> o.k = "te" /\ o.style = c.style /\ o.col = c.col /\ o.pos = c.pos
    [] c.k = "td"  -> o.k = "td" /\ TdEq(c.u, o.u) /\ TdEq(c.l, o.l) /\ TdEq(c.o, o.o)
    [] OTHER -> FALSE

\* the expected value in the observed form (for messages)
CanonLen(l) == [k |-> "olen", u |-> l.u, s |-> Scaled(l)]
Canon(c) ==
  CASE c.k = "len" -> CanonLen(c)
    [] c.k = "ext" -> [k |-> "ext", w |-> CanonLen(c.w), h |-> CanonLen(c.h)]
    [] c.k = "org" -> [k |-> "org", x |-> CanonLen(c.x), y |-> CanonLen(c.y)]
    [] c.k = "pos" -> [k |-> "pos", x |-> CanonLen(c.x), y |-> CanonLen(c.y), he |-> c.he, ve |-> c.ve]
    [] c.k = "pad" -> [k |-> "pad", before |-> CanonLen(c.before), end |-> CanonLen(c.end), after |-> CanonLen(c.after), start |-> CanonLen(c.start)]
    [] c.k = "rr"  -> [k |-> "rr", pos |-> c.pos, has |-> 1, len |-> CanonLen(c.len)]
    [] c.k = "to"  -> [k |-> "to", col |-> c.col, th |-> CanonLen(c.th)]
    [] c.k = "ts"  -> [k |-> "ts", sh |-> [j \in 1..Len(c.sh) |-> [x |-> CanonLen(c.sh[j].x), y |-> CanonLen(c.sh[j].y), hasb |-> c.sh[j].hasb,
                                                                    b |-> CanonLen(c.sh[j].b), col |-> c.sh[j].col]]]
    [] OTHER -> c

\* every length inside a computed value
LensOf(c) ==
  CASE c.k = "len" -> {c}
    [] c.k = "ext" -> {c.w, c.h}
    [] c.k \in {"org", "pos"} -> {c.x, c.y}
    [] c.k = "pad" -> {c.before, c.end, c.after, c.start}
    [] c.k = "rr"  -> {c.len}
    [] c.k = "to"  -> {c.th}
    [] c.k = "ts"  -> UNION {{c.sh[j].x, c.sh[j].y} \cup (IF c.sh[j].hasb = 1 THEN {c.sh[j].b} ELSE {}) : j \in 1..Len(c.sh)}
    [] OTHER -> {}
=============================================================================
