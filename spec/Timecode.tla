--------------------------------- MODULE Timecode ---------------------------------
(* SMPTE 12M time-code labels as an odometer, with the closed forms that must agree with it,
   and the millisecond quantiser of clock times.  Property C12 (also used by C05, C08, C09).

   A frame rate is NUM/DEN frames per second.  Labels count at the nominal integer rate
   FPS = ceil(NUM/DEN).  In drop-frame mode DROP labels (2 at 30000/1001, 4 at 60000/1001) are
   skipped at the start of every minute whose number is not a multiple of ten (SMPTE 12M-1 sec. 5.2.2);
   DROP = 0 means non-drop counting.  SMPTE 12M defines no drop-frame mode for 24000/1001: it is
   specified here as non-drop counting at 24 (DROP = 0) and reported separately by the harness.

   The state machine is the odometer: n is the number of frames since 00:00:00:00 and
   <<h, m, s, f>> the label of frame n.  Tick is the only action.                               *)
EXTENDS Naturals, Integers, Sequences, TLC

CONSTANTS NUM, DEN,      \* frame rate NUM/DEN
          FPS,           \* nominal label rate
          DROP,          \* labels dropped per (non-tenth) minute, 0 = non-drop
          HOURS,         \* explore labels below HOURS:00:00:00
          STARTS         \* set of hours at which Init starts (closed form); {0} = pure odometer

VARIABLES n, h, m, s, f
vars == <<n, h, m, s, f>>

-----------------------------------------------------------------------------
(* Closed forms *)

FramesPerMin   == FPS * 60 - DROP              \* a dropping minute
FramesPer10Min == FPS * 600 - 9 * DROP

ToFrames(hh, mm, ss, ff) ==
  LET tm == hh * 60 + mm
  IN  (tm * 60 + ss) * FPS + ff - DROP * (tm - tm \div 10)

\* frame count -> label count (adds back the skipped labels), then plain base conversion
LabelCount(k) ==
  IF DROP = 0 THEN k
  ELSE LET d == k \div FramesPer10Min
           r == k % FramesPer10Min
       IN  IF r < FPS * 60                      \* first minute of the ten: nothing dropped yet
           THEN k + 9 * DROP * d
           ELSE k + 9 * DROP * d + DROP * (1 + (r - FPS * 60) \div FramesPerMin)

FromFrames(k) ==
  LET c == LabelCount(k)
  IN  <<c \div (3600 * FPS), (c \div (60 * FPS)) % 60, (c \div FPS) % 60, c % FPS>>

IsDropped(mm, ss, ff) == DROP > 0 /\ ss = 0 /\ ff < DROP /\ mm % 10 # 0

ValidLabel(hh, mm, ss, ff) ==
  /\ hh \in Nat /\ mm \in 0..59 /\ ss \in 0..59 /\ ff \in 0..(FPS - 1)
  /\ ~IsDropped(mm, ss, ff)

\* the successor label, by carry; this is the definition of the counting sequence
Succ(hh, mm, ss, ff) ==
  IF ff + 1 < FPS THEN <<hh, mm, ss, ff + 1>>
  ELSE IF ss + 1 < 60 THEN <<hh, mm, ss + 1, 0>>
  ELSE LET m2 == (mm + 1) % 60
           h2 == IF mm + 1 = 60 THEN hh + 1 ELSE hh
       IN  <<h2, m2, 0, IF DROP > 0 /\ m2 % 10 # 0 THEN DROP ELSE 0>>

LexLess(a, b) ==
  \/ a[1] < b[1]
  \/ a[1] = b[1] /\ a[2] < b[2]
  \/ a[1] = b[1] /\ a[2] = b[2] /\ a[3] < b[3]
  \/ a[1] = b[1] /\ a[2] = b[2] /\ a[3] = b[3] /\ a[4] < b[4]

\* exact offset of frame k in seconds: k * DEN / NUM, as <<whole, rnum>> with fraction rnum/NUM
\* (split so that no product exceeds 32 bits: k = a*NUM + b)
OffsetOf(k) ==
  LET a == k \div NUM
      b == k % NUM
  IN  <<a * DEN + (b * DEN) \div NUM, (b * DEN) % NUM>>

-----------------------------------------------------------------------------
(* The odometer *)

Init == \E h0 \in STARTS :
          /\ h = h0 /\ m = 0 /\ s = 0 /\ f = 0
          /\ n = ToFrames(h0, 0, 0, 0)

Tick == /\ h < HOURS
        /\ LET nx == Succ(h, m, s, f)
           IN  /\ nx[1] < HOURS
               /\ h' = nx[1] /\ m' = nx[2] /\ s' = nx[3] /\ f' = nx[4]
        /\ n' = n + 1

Next == Tick
Spec == Init /\ [][Next]_vars

-----------------------------------------------------------------------------
(* Properties of the design, checked by TLC on every reachable state *)

FieldsInRange  == ValidLabel(h, m, s, f)
NeverDropped   == ~IsDropped(m, s, f)
ToFramesAgrees == ToFrames(h, m, s, f) = n
FromFramesAgrees == FromFrames(n) = <<h, m, s, f>>
StrictlyIncreasing == [][LexLess(<<h, m, s, f>>, <<h', m', s', f'>>)]_vars
OffsetExact == LET o == OffsetOf(n) IN o[2] \in 0..(NUM - 1)   \* and o[1]*NUM + o[2] = n*DEN by construction

-----------------------------------------------------------------------------
(* Millisecond quantiser.  A time is W whole seconds plus p/q of a second (0 <= p < q).  The clock
   time T (in ms) printed for it must be a nearest millisecond: |T - 1000*(W + p/q)| <= 1/2.
   Ties may go either way (the property fixes no direction).                                      *)

NearestMs(T, W, p, q) ==
  LET r == T - W * 1000                        \* 0..1000 (1000 = carried into the next second)
      d == r * q - 1000 * p
  IN  /\ r \in 0..1000
      /\ 2 * (IF d < 0 THEN -d ELSE d) <= q

\* bracketed variant for inputs only known to lie in [W + lo/10^6, W + hi/10^6]
NearestMsBracket(T, W, lo, hi) ==
  LET r == T - W * 1000
  IN  /\ r \in 0..1000
      /\ r * 1000 >= lo - 500
      /\ r * 1000 <= hi + 500

ClockFieldsOk(hh, mm, ss, ms) == hh \in Nat /\ mm \in 0..59 /\ ss \in 0..59 /\ ms \in 0..999
ClockMs(hh, mm, ss, ms) == ((hh * 60 + mm) * 60 + ss) * 1000 + ms
=============================================================================
