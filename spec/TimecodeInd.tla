---------------------------- MODULE TimecodeInd ----------------------------
(* Apalache: the invariant "fields in range, never a dropped label, ToFrames(label) = n" is INDUCTIVE for the odometer
   step Tick at 30000/1001 drop-frame (FPS = 30, DROP = 2) and for 60000/1001 (FPS = 60, DROP = 4): it holds for
   every n, not only up to 24 h.  Checked with
     apalache-mc check --init=IndInit --inv=IndInv --next=Next --length=1 TimecodeInd.tla                         *)
EXTENDS Integers

CONSTANTS
  \* @type: Int;
  FPS,
  \* @type: Int;
  DROP

VARIABLES
  \* @type: Int;
  n,
  \* @type: Int;
  h,
  \* @type: Int;
  m,
  \* @type: Int;
  s,
  \* @type: Int;
  f

CInit30 == FPS = 30 /\ DROP = 2
CInit60 == FPS = 60 /\ DROP = 4

ToFrames(hh, mm, ss, ff) ==
  LET tm == hh * 60 + mm
  IN  (tm * 60 + ss) * FPS + ff - DROP * (tm - tm \div 10)

IsDropped(mm, ss, ff) == DROP > 0 /\ ss = 0 /\ ff < DROP /\ mm % 10 # 0

IndInv ==
  /\ h >= 0 /\ m \in 0..59 /\ s \in 0..59 /\ f \in 0..(FPS - 1)
  /\ ~IsDropped(m, s, f)
  /\ ToFrames(h, m, s, f) = n

IndInit ==
  /\ h \in Nat /\ m \in 0..59 /\ s \in 0..59 /\ f \in 0..(FPS - 1)
  /\ n = ToFrames(h, m, s, f)
  /\ ~IsDropped(m, s, f)

Next ==
  /\ n' = n + 1
  /\ IF f + 1 < FPS THEN h' = h /\ m' = m /\ s' = s /\ f' = f + 1
     ELSE IF s + 1 < 60 THEN h' = h /\ m' = m /\ s' = s + 1 /\ f' = 0
     ELSE /\ m' = (m + 1) % 60
          /\ h' = IF m + 1 = 60 THEN h + 1 ELSE h
          /\ s' = 0
          /\ f' = IF DROP > 0 /\ ((m + 1) % 60) % 10 # 0 THEN DROP ELSE 0

Init == n = 0 /\ h = 0 /\ m = 0 /\ s = 0 /\ f = 0
=============================================================================
