--------------------------------- MODULE Timeline ---------------------------------
(* The presentation timeline of one document as a state machine: Init picks a document of a bounded
   family, a time cursor t sweeps a half-tick grid, and the presentation at t is Snapshot(doc, t).
   TLC checks here, on the design, the structural properties of snapshots (C01) and that the
   presentation changes only at SpecSigTimes(doc) (C02) - so that demanding the same of the
   implementation's significant times is demanding something the semantics guarantees.           *)
EXTENDS Ttml

CONSTANTS Docs,      \* the bounded family of documents (defined by the generated MC module)
          TMAX       \* sweep t = 0..TMAX

VARIABLES doc, t
vars == <<doc, t>>

Init == doc \in Docs /\ t = 0
Step == t < TMAX /\ t' = t + 1 /\ doc' = doc
Spec == Init /\ [][Step]_vars

Inv_NoDuplicates == NoDuplicates(doc, t)
Inv_ActiveOnly   == ActiveOnly(doc, t)
Inv_WellFormed   == WellFormedDoc(doc)
\* leaves of a region are listed in document order, once each (SetToSeq of a set)
Inv_Ordered == \A R \in DOMAIN Snapshot(doc, t) :
                 LET ls == Snapshot(doc, t)[R].leaves IN \A a, b \in 1..Len(ls) : a < b => ls[a] < ls[b]
\* an empty region is shown only when its background is to be shown always
Inv_EmptyRegion == \A R \in DOMAIN Snapshot(doc, t) :
                 Snapshot(doc, t)[R].leaves = <<>> => (IF R = 0 THEN TRUE ELSE doc.rbg[R] = "always")

\* C02 on the design: the presentation (snapshot and display values) changes only at a change point
Present(d, x) == <<Snapshot(d, x), [k \in 1..d.n |-> DispAt(d, k, x)]>>
ChangesOnlyAtSigTimes == [][Present(doc, t') # Present(doc, t) => t' \in SpecSigTimes(doc)]_vars
\* and nothing is presented before the first one
NothingBeforeFirst == (\A s \in SpecSigTimes(doc) : t < s) => \A R \in DOMAIN Snapshot(doc, t) : Snapshot(doc, t)[R].leaves = <<>>
=============================================================================
