------------------------------- MODULE Trace_Cea608 -------------------------------
(* Trace validation for C08: what ttconv.scc.reader.to_model shows, frame by frame, against the reference
   decoder of Cea608Decoder.tla.  The decoder state machine is literally walked: one TLC step per step of a
   recorded stream, each word dispatched to exactly one decoder action (TNull .. TUnsup below, so that TLC's
   coverage report shows which decoder actions fired).

   ndjson, one record per SCC file:
     id     record number
     df     1 = ';' time codes (30000/1001 drop-frame), 0 = ':' (30 fps)
     steps  [t |-> "L", w |-> 0, lab |-> <<h, m, s, f>>]   a new SCC line with this time code
            [t |-> "W", w |-> word, lab |-> <<0,0,0,0>>]   one word of the line, as written in the file (with parity)
            [t |-> "E", ...]                               end of the file
     obs    what the document shows, run-length encoded over frames: [f, nb, ne, scr]; scr is valid from frame f
            up to the next entry; the first entry starts two frames before the first line.  nb / ne = number of
            paragraphs or timed spans that begin / paragraphs that end at f.
            scr = << <<row, << <<code point, colour, italic, underline>>, .. >> >>, .. >> : non-empty rows in row order
     pars   [bn, bd, en, ed]: begin and end of every paragraph in frames as fractions in lowest terms (en = -1: none)

   Relation between the recorded screen O(f) of frame f and the decoder (property C08, DESIGN.md sec. 6).  Let D(j)
   be Screen(disp) after j words.  The word transmitted during frame f may act anywhere in its transmission window,
   which extends over the frame of its doubled copy, so O(f) is compared with the candidates
        D after the word of frame f,  D before it,  and - when that word is a suppressed copy - D before the original.
   In frames without data (between lines, after the end) the only candidate is the current D.
     pop-on   : O(f) equals a candidate: same rows, same characters              [ "appear at the flip (EOC) and
                vanish when erased or replaced" ]                                  clause popon_screen
     paint-on : O(f) equals a candidate                                          [ "accumulates as received" ]
                                                                                   clause painton_screen
                when it does not, but equals the reference screen as it will be later before the next erase (the reader
                opens a timed span per word and shows it whole, ahead of reception), the clause is
                painton_ahead_of_reception - still a failure, but told apart from a wrong screen; at the end of the
                stream equality is required
     roll-up  : the reader emits one paragraph per rolled state, a row becomes visible as a whole.  The property's
                roll-up clause is about which rows are shown, so: at most `depth` rows; the rows above the base row
                equal the reference rows; the reference base row is a prefix of the shown base row (which may already
                be there while the reference base row is still empty) - or, because BS and extended characters replace
                what was received, the shown screen equals the reference screen as it will be later on the same line
                (before the next CR / erase); rows are compared by absolute number when the base row is 15, by order
                and count otherwise                                   clauses rollup_rows, rollup_prefix
                and with equality in the frame of a CR, EDM, mode change and at the end of the stream (unless the
                reader already shows the state after that word)       clause rollup_quiescent
     attributes: colour, italics, underline of every non-space character of the matching candidate
                                                                      clauses attr_colour, attr_italic, attr_underline
     a failure in the frame of a word for the other channel / of ignored text is named other_channel_ignored,
     in the frame of a suppressed copy doubled_control_once.
     rows reused: when a PAC addresses a row that already holds text in the memory being written (a pop-on caption
     composed over the older caption left in the non-displayed memory, paint-on onto a painted row) the reader does
     not overlay cell by cell (documented design limitation).  A screen or attribute failure that is confined to
     such rows - the screens agree on all other rows - carries the suffix _row_reused; it is still a failure.
   Timing: every begin / end is an exact frame multiple (begin_exact_frame, end_exact_frame); every frame at which
   the shown screen changes lies in the transmission window [frame of the word, frame after its doubled copy] of a
   word that changes the displayed memory - in roll-up also of the RU / CR / PAC that opens a row, in paint-on
   also of a PAC (the reader starts a paragraph there) - which also makes
   it not earlier than that line's time code (begin_frame, end_frame; before_first_line when it precedes all data).

   Streams outside the domain (a line whose time code is before the clock or is not a valid label, words the
   protocols do not use) are skipped and counted: <<"SKIP", id, why>>.
   Verdicts: <<"FAIL", id, frame, clause>>; <<"DONE", number of records>> when everything was consumed.   *)
EXTENDS Cea608Decoder, Json, IOUtils, TLCExt

Recs == ndJsonDeserialize(IOEnv.TRACE_FILE)
TracePick(S) == S                    \* the generator is not used when validating traces

VARIABLES i,        \* record
          k,        \* next step of the record
          p1, p2,   \* the candidates "before the last word" and "before the word before it": [scr, kind, base, depth]
          dk,       \* protocol the displayed memory was last written under: "popon" | "painton" | "rollup"
          cl1,      \* the last word was a closing word for roll-up content (CR, EDM, mode change)
          cov,      \* frames of observed screen changes that lie in the window of a triggering word
          skipped,  \* the record left the domain
          hist,     \* reference screens after every word so far: [scr, kind, base, depth, ep]
          ep,       \* epoch: incremented when the displayed memory is rolled, erased or flipped
          defer,    \* roll-up / paint-on frames whose screen matched no candidate: judged against later screens at the end
          td, tn    \* "rows reused": the rows of the displayed / non-displayed memory that a PAC addressed while they
                    \* already held text (pop-on composed over an older caption without ENM; paint-on onto a painted row)
                    \* since that memory was last erased.  A failure confined to such rows is named <clause>_row_reused
tvars == <<i, k, p1, p2, dk, cl1, cov, skipped, hist, ep, defer, td, tn>>

Fail(r, x, clause) == PrintT(<<"FAIL", r, x, clause>>)
Chk(cond, r, x, clause) == IF cond THEN TRUE ELSE Fail(r, x, clause)
Min2(a, b) == IF a < b THEN a ELSE b
Max2(a, b) == IF a > b THEN a ELSE b

Rec == Recs[i]
St  == Rec.steps[k]
NoCand == [scr |-> <<>>, kind |-> "popon", base |-> 15, depth |-> 4, t |-> {}]

-----------------------------------------------------------------------------
(* Observed screens *)
ObsIdx(rec, fr) == CHOOSE j \in 1..Len(rec.obs) :
                     /\ rec.obs[j].f <= fr
                     /\ (j = Len(rec.obs) \/ rec.obs[j + 1].f > fr)
ChangeFrames(rec) == {rec.obs[j].f : j \in 2..Len(rec.obs)}

\* Glyph tables are property C17, not C08: the one glyph C17 reports as a known finding (extended character 13h 2Ch, the
\* caret, decoded as U+028C) is tolerated here so that it is not reported twice.
ChMatch(refch, cp) == IF refch >= ExtMark
                      THEN \/ cp \in ExtendedChars(B1(refch - ExtMark), B2(refch - ExtMark))
                           \/ (refch - ExtMark = 19 * 256 + 44 /\ cp = 652)
                      ELSE cp = refch
CellsEq(rc, oc)     == Len(rc) = Len(oc) /\ \A j \in 1..Len(rc) : ChMatch(rc[j].ch, oc[j][1])
CellsPrefix(rc, oc) == Len(rc) <= Len(oc) /\ \A j \in 1..Len(rc) : ChMatch(rc[j].ch, oc[j][1])

ScreenEq(D, O) == /\ Len(D) = Len(O)
                  /\ \A j \in 1..Len(D) : D[j].row = O[j][1] /\ CellsEq(D[j].cells, O[j][2])

\* roll-up: which rows
RollShape(c, O) ==
  LET nR == Len(c.scr)  nO == Len(O) IN
  /\ nO <= c.depth
  /\ \/ nO = nR
     \/ nO = nR + 1 /\ (nR = 0 \/ c.scr[nR].row # c.base)       \* the row being received is shown as a whole, early
  /\ c.base = 15 => /\ \A j \in 1..nR : c.scr[j].row = O[j][1]
                    /\ nO = nR + 1 => O[nO][1] = 15
\* roll-up: their characters
RollChars(c, O) ==
  \A j \in 1..Len(c.scr) : IF c.scr[j].row = c.base THEN CellsPrefix(c.scr[j].cells, O[j][2])
                           ELSE CellsEq(c.scr[j].cells, O[j][2])
RollRel(c, O) == RollShape(c, O) /\ RollChars(c, O)
RollExact(c, O) == /\ Len(c.scr) = Len(O) /\ Len(O) <= c.depth
                   /\ \A j \in 1..Len(O) : (c.base = 15 => c.scr[j].row = O[j][1]) /\ CellsEq(c.scr[j].cells, O[j][2])

\* a candidate: [scr, kind, base, depth, exact]
Matches(c, O) == IF c.kind = "rollup" THEN (IF c.exact THEN RollExact(c, O) ELSE RollRel(c, O)) ELSE ScreenEq(c.scr, O)
\* a later reference screen h = [scr, kind, base, depth, ep]
FutMatch(h, O) == IF h.kind = "rollup" THEN RollExact(h, O) ELSE ScreenEq(h.scr, O)

StrictClause(cands, O, special) ==
  LET basecl ==
        IF \E j \in 1..Len(cands) : cands[j].kind = "rollup"
        THEN IF \E j \in 1..Len(cands) : cands[j].kind = "rollup" /\ cands[j].exact /\ RollRel(cands[j], O) THEN "rollup_quiescent"
             ELSE IF \E j \in 1..Len(cands) : cands[j].kind = "rollup" /\ RollShape(cands[j], O) THEN "rollup_prefix"
             ELSE "rollup_rows"
        ELSE IF \E j \in 1..Len(cands) : cands[j].kind = "painton" THEN "painton_screen"
        ELSE "popon_screen"
  IN  IF special = "" THEN basecl ELSE special
\* the screens agree outside the rows R
Without(scr, R)  == SelectSeq(scr, LAMBDA x : x.row \notin R)
WithoutO(O, R)   == SelectSeq(O, LAMBDA x : x[1] \notin R)
EqExcept(scr, O, R) == R # {} /\ ScreenEq(Without(scr, R), WithoutO(O, R))
Reused(clause, cands, O) ==
  IF clause \in {"popon_screen", "painton_screen", "doubled_control_once", "other_channel_ignored"}
     /\ \E j \in 1..Len(cands) : cands[j].kind # "rollup" /\ EqExcept(cands[j].scr, O, cands[j].t)
  THEN clause \o "_row_reused" ELSE clause

\* diagnostics (only when the environment variable C08_DEBUG is set): the candidates as <<row, code points>>
Dbg(x) == IF "C08_DEBUG" \in DOMAIN IOEnv THEN PrintT(x) ELSE TRUE
Brief(scr) == [j \in 1..Len(scr) |-> <<scr[j].row, [x \in 1..Len(scr[j].cells) |-> scr[j].cells[x].ch]>>]

\* attributes of the non-space characters, against the matching screen
AttrOk(scr, O, r, fr, t) ==
  \A j \in 1..Min2(Len(scr), Len(O)) :
    \A x \in 1..Min2(Len(scr[j].cells), Len(O[j][2])) :
      LET rc == scr[j].cells[x]  oc == O[j][2][x]
          sfx == IF scr[j].row \in t THEN "_row_reused" ELSE "" IN
      IF rc.ch = 32 THEN TRUE
      ELSE /\ Chk(oc[2] = rc.col, r, fr, "attr_colour" \o sfx)
           /\ Chk((oc[3] = 1) = rc.it, r, fr, "attr_italic" \o sfx)
           /\ Chk((oc[4] = 1) = rc.ul, r, fr, "attr_underline" \o sfx)

\* "ok" | "defer" (roll-up / paint-on: judged at the end against later reference screens) | name of the failing clause
Outcome(cands, O, special) ==
  IF \E j \in 1..Len(cands) : Matches(cands[j], O) THEN "ok"
  ELSE IF \E j \in 1..Len(cands) : cands[j].kind \in {"rollup", "painton"} /\ ~cands[j].exact THEN "defer"
  ELSE StrictClause(cands, O, special)

\* prints the verdict of one frame (TRUE in any case); a deferred frame prints nothing yet
Judge(r, fr, cands, O, special) ==
  LET out == Outcome(cands, O, special) IN
  IF out = "ok"
  THEN LET hits == {j \in 1..Len(cands) : Matches(cands[j], O)}
           c    == cands[CHOOSE j \in hits : \A j2 \in hits : j <= j2]
       IN  AttrOk(c.scr, O, r, fr, c.t)
  ELSE IF out = "defer" THEN TRUE
  ELSE Fail(r, fr, Reused(out, cands, O)) /\ Dbg(<<"DBG", r, fr, [j \in 1..Len(cands) |-> Brief(cands[j].scr)], O>>)

Deferred(fr, from, e, cands, O, special) ==
  [fr |-> fr, from |-> from, ep |-> e, O |-> O, clause |-> StrictClause(cands, O, special),
   t |-> UNION {cands[j].t : j \in 1..Len(cands)},
   rr |-> \E j \in 1..Len(cands) : cands[j].kind # "rollup" /\ EqExcept(cands[j].scr, O, cands[j].t),
   paint |-> \E j \in 1..Len(cands) : cands[j].kind = "painton"]

WithExact(c, e) == [scr |-> c.scr, kind |-> c.kind, base |-> c.base, depth |-> c.depth, exact |-> e, t |-> c.t]

-----------------------------------------------------------------------------
(* Steps *)
InRec == i <= Len(Recs) /\ ~skipped /\ k <= Len(Rec.steps)

NextDk == IF mode' \in {"rollup", "painton"} THEN mode'
          ELSE IF disp' = disp THEN dk ELSE "popon"

\* is the word at step k followed at once by its copy (next word, possibly on a new line that starts at the next frame)?
CopyFollows(rec, kk, code, fr, d) ==
  /\ code # 0
  /\ \/ kk + 1 <= Len(rec.steps) /\ rec.steps[kk + 1].t = "W" /\ Strip(rec.steps[kk + 1].w) = code
     \/ /\ kk + 2 <= Len(rec.steps) /\ rec.steps[kk + 1].t = "L" /\ LabelFrames(d, rec.steps[kk + 1].lab) = fr + 1
        /\ rec.steps[kk + 2].t = "W" /\ Strip(rec.steps[kk + 2].w) = code

\* one received word: the decoder action named by `kind` fires, then the recorded screen of that frame is judged
Pre(kind) == InRec /\ St.t = "W" /\ Kind(St.w) = kind
Post(kind) ==
  /\ Receive(St.w)
  /\ LET fr     == frame
         nep    == IF kind \in {"CR", "EDM", "EOC"} \/ (kind = "RU" /\ mode # "rollup") THEN ep + 1 ELSE ep
         \* a PAC onto a row that already holds text in the memory being written (not in roll-up: the base row continues)
         hit     == kind = "Pac" /\ mode \in {"popon", "painton"} /\ PacRow(B1(St.w), B2(St.w)) \in NonEmptyRows(Writing)
         prow    == PacRow(B1(St.w), B2(St.w))
         ntd     == CASE kind = "EOC" -> tn
                      [] kind = "EDM" \/ (kind = "RU" /\ mode # "rollup") -> {}
                      [] hit /\ mode = "painton" -> td \cup {prow}
                      [] OTHER -> td
         ntn     == CASE kind = "EOC" -> td
                      [] kind = "ENM" \/ (kind = "RU" /\ mode # "rollup") -> {}
                      [] hit /\ mode = "popon" -> tn \cup {prow}
                      [] OTHER -> tn
         after  == [scr |-> Screen(disp'), kind |-> NextDk, base |-> base', depth |-> depth', exact |-> FALSE, t |-> ntd]
         closing == kind \in {"CR", "EDM", "RCL", "RDC", "EOC", "RU"}
         cands  == IF kind = "DupControl"
                   THEN <<after, WithExact(p1, cl1), WithExact(p2, cl1)>>
                   ELSE <<after, WithExact(p1, closing)>>
         special == IF kind = "OtherChannel" \/ (kind = "Chars" /\ chan = 2) THEN "other_channel_ignored"
                    ELSE IF kind = "DupControl" THEN "doubled_control_once" ELSE ""
         changed == after.scr # p1.scr
         trigger == changed \/ (mode' = "rollup" /\ kind \in {"RU", "CR", "Pac"}) \/ (mode' = "painton" /\ kind = "Pac")
         d       == IF CopyFollows(Rec, k, lastCtl', fr, df) THEN 1 ELSE 0
         O       == Rec.obs[ObsIdx(Rec, fr)].scr
     IN  /\ Judge(Rec.id, fr, cands, O, special) = TRUE
         /\ td' = ntd /\ tn' = ntn
         /\ defer' = IF Outcome(cands, O, special) = "defer"
                     THEN Append(defer, Deferred(fr, Max2(1, Len(hist) + 2 - Len(cands)), nep, cands, O, special))
                     ELSE defer
         /\ hist' = Append(hist, [scr |-> after.scr, kind |-> after.kind, base |-> after.base, depth |-> after.depth, ep |-> nep,
                                   t |-> ntd])
         /\ ep' = nep
         /\ p1' = [scr |-> after.scr, kind |-> after.kind, base |-> after.base, depth |-> after.depth, t |-> ntd]
         /\ p2' = p1
         /\ dk' = NextDk
         /\ cl1' = (IF kind = "DupControl" THEN cl1 ELSE closing)
         /\ cov' = IF trigger THEN cov \cup {x \in ChangeFrames(Rec) : fr <= x /\ x <= fr + 1 + d} ELSE cov
  /\ k' = k + 1 /\ UNCHANGED <<i, skipped>> /\ UNCHANGED gvars

\* one named trace action per decoder action (TLC's coverage report then counts the decoder actions that fired)
TNull == Pre("Null") /\ Post("Null")                TChars == Pre("Chars") /\ Post("Chars")
TPac == Pre("Pac") /\ Post("Pac")                   TMidRow == Pre("MidRow") /\ Post("MidRow")
TRCL == Pre("RCL") /\ Post("RCL")                   TRDC == Pre("RDC") /\ Post("RDC")
TRU == Pre("RU") /\ Post("RU")                      TCR == Pre("CR") /\ Post("CR")
TEOC == Pre("EOC") /\ Post("EOC")                   TEDM == Pre("EDM") /\ Post("EDM")
TENM == Pre("ENM") /\ Post("ENM")                   TBS == Pre("BS") /\ Post("BS")
TTO == Pre("TO") /\ Post("TO")                      TDER == Pre("DER") /\ Post("DER")
TSpecial == Pre("Special") /\ Post("Special")       TExtended == Pre("Extended") /\ Post("Extended")
TDupControl == Pre("DupControl") /\ Post("DupControl")
TOtherChannel == Pre("OtherChannel") /\ Post("OtherChannel")

\* frames fr0 .. fr1 carry no data: the screen is the current one throughout.  The indices of the observation entries
\* to judge: the one in force at fr0 and every one that starts in (fr0, fr1]
QuietIdx(rec, fr0, fr1) ==
  IF fr1 < fr0 THEN <<>>
  ELSE <<ObsIdx(rec, fr0)>> \o SelectSeq([j \in 1..Len(rec.obs) |-> j], LAMBDA j : rec.obs[j].f > fr0 /\ rec.obs[j].f <= fr1)
QuietCand(exact) == <<[scr |-> Screen(disp), kind |-> dk, base |-> base, depth |-> depth, exact |-> exact, t |-> td]>>
QuietFr(rec, j, fr0) == Max2(rec.obs[j].f, fr0)
QuietJudge(rec, fr0, fr1, exact) ==
  \A n \in 1..Len(QuietIdx(rec, fr0, fr1)) :
    LET j == QuietIdx(rec, fr0, fr1)[n] IN Judge(rec.id, QuietFr(rec, j, fr0), QuietCand(exact), rec.obs[j].scr, "")
QuietDefers(rec, fr0, fr1) ==
  LET sel == SelectSeq(QuietIdx(rec, fr0, fr1), LAMBDA j : Outcome(QuietCand(FALSE), rec.obs[j].scr, "") = "defer")
  IN  [n \in 1..Len(sel) |-> Deferred(QuietFr(rec, sel[n], fr0), Max2(1, Len(hist)), ep, QuietCand(FALSE), rec.obs[sel[n]].scr, "")]

TNewLine ==
  /\ InRec /\ St.t = "L"
  /\ LET d == (Rec.df = 1) IN
     IF LabelValid(d, St.lab) /\ LabelFrames(d, St.lab) >= frame
     THEN /\ NewLine(d, St.lab)
          /\ (k = 1 \/ QuietJudge(Rec, frame, LabelFrames(d, St.lab) - 1, FALSE)) = TRUE
          /\ defer' = IF k = 1 THEN defer ELSE defer \o QuietDefers(Rec, frame, LabelFrames(d, St.lab) - 1)
          /\ p1' = (IF frame' = frame THEN p1 ELSE [scr |-> Screen(disp), kind |-> dk, base |-> base, depth |-> depth, t |-> td])
          /\ p2' = (IF frame' = frame THEN p2 ELSE p1')
          /\ skipped' = FALSE
     ELSE /\ PrintT(<<"SKIP", Rec.id, "line_time_code_before_clock_or_invalid">>)
          /\ skipped' = TRUE /\ UNCHANGED <<dvars, p1, p2, defer>>
  /\ k' = k + 1 /\ UNCHANGED <<i, dk, cl1, cov, hist, ep, td, tn>> /\ UNCHANGED gvars

\* words outside the protocols (attribute codes, AOF/AON/FON/TR/RTD, undefined pairs): the record is not judged
TUnsup ==
  /\ InRec /\ St.t = "W" /\ Kind(St.w) \in {"Unsupported", "Undefined"}
  /\ PrintT(<<"SKIP", Rec.id, "word_outside_protocols">>)
  /\ skipped' = TRUE /\ k' = k + 1 /\ UNCHANGED <<i, p1, p2, dk, cl1, cov, hist, ep, defer, td, tn, dvars>> /\ UNCHANGED gvars

\* a deferred frame: the shown screen must be a later reference screen of the same epoch (the row / span as it will be).
\* Roll-up: that is the admitted "row as a whole".  Paint-on: a failure of its own name.
Resolve(r, d) ==
  LET fut == {j \in d.from..Len(hist) : hist[j].ep = d.ep /\ FutMatch(hist[j], d.O)}
      \* ... or such a screen but for the reused rows
      futx == {j \in d.from..Len(hist) : hist[j].ep = d.ep /\ hist[j].kind # "rollup" /\ EqExcept(hist[j].scr, d.O, hist[j].t \cup d.t)}
  IN
  IF fut = {} THEN Fail(r, d.fr, IF (futx # {} \/ d.rr) /\ d.clause \in {"popon_screen", "painton_screen", "doubled_control_once", "other_channel_ignored"}
                                 THEN d.clause \o "_row_reused" ELSE d.clause)
                   /\ Dbg(<<"DBG", r, d.fr, [j \in 1..(Len(hist) + 1 - d.from) |-> Brief(hist[d.from + j - 1].scr)], d.O>>)
  ELSE IF d.paint THEN Fail(r, d.fr, "painton_ahead_of_reception")
  ELSE AttrOk(hist[CHOOSE j \in fut : \A j2 \in fut : j <= j2].scr, d.O, r, d.fr, d.t)

\* end of the file: three more frames without data, the deferred frames, then the timing clauses
TEnd ==
  /\ InRec /\ St.t = "E"
  /\ QuietJudge(Rec, frame, frame + 3, TRUE) = TRUE
  /\ (\A n \in 1..Len(defer) : Resolve(Rec.id, defer[n])) = TRUE
  /\ LET first == Rec.obs[1].f + 2 IN
     (\A j \in 2..Len(Rec.obs) :
        LET x == Rec.obs[j].f IN
        IF x \in cov THEN TRUE
        ELSE Fail(Rec.id, x, IF x < first THEN "before_first_line"
                             ELSE IF Rec.obs[j].nb > 0 THEN "begin_frame" ELSE "end_frame")) = TRUE
  /\ (\A j \in 1..Len(Rec.pars) :
        /\ Chk(Rec.pars[j][2] = 1, Rec.id, j, "begin_exact_frame")
        /\ Chk(Rec.pars[j][4] = 1, Rec.id, j, "end_exact_frame")) = TRUE
  /\ Chk(Rec.obs[1].scr = <<>>, Rec.id, Rec.obs[1].f, "before_first_line") = TRUE
  /\ k' = k + 1 /\ UNCHANGED <<i, p1, p2, dk, cl1, cov, skipped, hist, ep, defer, td, tn, dvars>> /\ UNCHANGED gvars

\* next record: the decoder is reset
TNextRec ==
  /\ i <= Len(Recs) /\ (skipped \/ k > Len(Rec.steps))
  /\ i' = i + 1 /\ k' = 1 /\ p1' = NoCand /\ p2' = NoCand /\ dk' = "popon" /\ cl1' = FALSE /\ cov' = {} /\ skipped' = FALSE
  /\ hist' = <<>> /\ ep' = 0 /\ defer' = <<>> /\ td' = {} /\ tn' = {}
  /\ mode' = "none" /\ depth' = 2 /\ base' = 15 /\ disp' = EmptyMem /\ ndisp' = EmptyMem /\ cur' = <<15, 1>>
  /\ pen' = DefaultPen /\ lastCtl' = 0 /\ chan' = 1 /\ frame' = 0 /\ df' = FALSE
  /\ UNCHANGED gvars

TFinish ==
  /\ i = Len(Recs) + 1 /\ PrintT(<<"DONE", Len(Recs)>>)
  /\ i' = i + 1 /\ UNCHANGED <<k, p1, p2, dk, cl1, cov, skipped, hist, ep, defer, td, tn, dvars>> /\ UNCHANGED gvars

TInit ==
  /\ DInit /\ frame = 0 /\ df = FALSE
  /\ i = 1 /\ k = 1 /\ p1 = NoCand /\ p2 = NoCand /\ dk = "popon" /\ cl1 = FALSE /\ cov = {} /\ skipped = FALSE
  /\ hist = <<>> /\ ep = 0 /\ defer = <<>> /\ td = {} /\ tn = {}
  /\ ph = "trace" /\ style = "none" /\ ncap = 0 /\ nrow = 0 /\ nitem = 0 /\ pend = 0 /\ c2 = FALSE /\ sent = <<>> /\ budget = 0
  /\ lastch = FALSE /\ clean = FALSE

TNext ==
  \/ TNull \/ TChars \/ TPac \/ TMidRow \/ TRCL \/ TRDC \/ TRU \/ TCR \/ TEOC \/ TEDM \/ TENM \/ TBS \/ TTO \/ TDER
  \/ TSpecial \/ TExtended \/ TDupControl \/ TOtherChannel \/ TNewLine \/ TUnsup \/ TEnd \/ TNextRec \/ TFinish

\* the decoder's own invariants are evaluated on every state of the walk
TraceCursorInRange == CursorInRange
TraceRollupWindow  == RollupWindow
=============================================================================
