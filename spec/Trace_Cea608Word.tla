----------------------------- MODULE Trace_Cea608Word -----------------------------
(* Validates what ttconv.scc.word.SccWord / scc.disassembly report for recorded words against
   Cea608Word.tla.  ndjson records:

   kind "w":  hi (first byte as transmitted, 0..255) and arrays over the second byte lo = 0..255:
       cls[lo+1]  class observed through the public API: "PAD" | "TEXT" | "PAC" | "MIDROW" | "CONTROL"
                  | "ATTR" | "SPECIAL" | "EXTENDED" | "UNKNOWN"
       ch[lo+1]   1, 2 or 0 (get_channel() is None)
       row, ind   PAC row / indent (-1 = None)         col  colour name or "none"
       it, ul     1/0                                  nm   control-code name or attribute opacity, "" otherwise
       cps        list of Unicode code points of the decoded text
   kind "dis": ws = words of one line, show = 0/1, toks = lexed disassembly tokens
       [k |-> "G", ch |-> -1|0|1|2, row |-> n|-1, rest |-> string]   for a {...} group
       [k |-> "C", cp |-> code point]                                for a character
       head = 1 iff the rendering starts with the time code and a tab
   Failing clauses print <<"FAIL", record index, word, clause>>.                                  *)
EXTENDS Cea608Word, Integers, Json, IOUtils, TLCExt

Recs == ndJsonDeserialize(IOEnv.TRACE_FILE)
VARIABLE i
tvars == <<i, w>>

Fail(r, x, clause) == PrintT(<<"FAIL", r, x, clause>>)
Chk(cond, r, x, clause) == IF cond THEN TRUE ELSE Fail(r, x, clause)

ExpectedText(b1, b2, cps) ==
  IF b2 >= 32 THEN cps = <<StdChar(b1), StdChar(b2)>>
  ELSE IF b2 = 0 THEN cps = <<StdChar(b1)>>
  ELSE Len(cps) >= 1 /\ cps[1] = StdChar(b1)          \* second byte 01h..1Fh is undefined: not judged

CheckWord(ri, rec, lo) ==
  LET x   == rec.hi * 256 + lo
      b1  == B1(x)
      b2  == B2(x)
      k   == lo + 1
      cls == Class(b1, b2)
  IN  /\ Chk(rec.cls[k] = cls, ri, x, "class")
      /\ Chk(rec.ch[k] = Channel(b1, b2), ri, x, "channel")
      /\ IF cls # rec.cls[k] THEN TRUE
         ELSE CASE cls = "PAC" ->
                /\ Chk(rec.row[k] = PacRow(b1, b2), ri, x, "pac_row")
                /\ Chk(IF PacIsIndent(b2) THEN rec.ind[k] = PacIndent(b2) ELSE rec.ind[k] \in {-1, 0}, ri, x, "pac_indent")
                /\ Chk(IF PacIsIndent(b2) THEN rec.col[k] \in {"none", "white"} ELSE rec.col[k] = PacColour(b2), ri, x, "pac_colour")
                /\ Chk((rec.it[k] = 1) = PacItalic(b2), ri, x, "pac_italic")
                /\ Chk((rec.ul[k] = 1) = PacUnderline(b2), ri, x, "pac_underline")
              [] cls = "MIDROW" ->
                /\ Chk(rec.col[k] = MidColour(b2), ri, x, "midrow_colour")
                /\ Chk((rec.it[k] = 1) = MidItalic(b2), ri, x, "midrow_italic")
                /\ Chk((rec.ul[k] = 1) = MidUnderline(b2), ri, x, "midrow_underline")
              [] cls = "CONTROL" -> Chk(rec.nm[k] = ControlName(b1, b2), ri, x, "control_name")
              [] cls = "ATTR" ->
                LET a == AttrDecode(b1, b2) IN
                /\ Chk(rec.col[k] = a[1], ri, x, "attr_colour")
                /\ Chk(rec.nm[k] = a[2], ri, x, "attr_opacity")
                /\ Chk((rec.ul[k] = 1) = a[3], ri, x, "attr_underline")
              [] cls = "SPECIAL" -> Chk(rec.cps[k] = <<SpecialChar(b2)>>, ri, x, "special_char")
              [] cls = "EXTENDED" ->
                   Chk(Len(rec.cps[k]) = 1 /\ rec.cps[k][1] \in ExtendedChars(b1, b2), ri, x, "extended_char")
              [] cls = "TEXT" -> Chk(ExpectedText(b1, b2, rec.cps[k]), ri, x, "standard_char")
              [] OTHER -> TRUE

\* expected rendering of one word: a sequence of token shapes
CodeClasses == {"PAC", "MIDROW", "CONTROL", "ATTR", "UNKNOWN", "PAD"}
WordToks(x) ==
  LET b1 == B1(x) b2 == B2(x) cls == Class(b1, b2) IN
  IF cls \in CodeClasses THEN <<[k |-> "G", x |-> x]>>
  ELSE IF cls = "TEXT" THEN (IF b2 = 0 THEN <<[k |-> "C", x |-> x, cp |-> {StdChar(b1)}, code |-> FALSE]>>
                              ELSE <<[k |-> "C", x |-> x, cp |-> {StdChar(b1)}, code |-> FALSE], [k |-> "C", x |-> x, cp |-> {StdChar(b2)}, code |-> FALSE]>>)
  ELSE IF cls = "SPECIAL" THEN <<[k |-> "C", x |-> x, cp |-> {SpecialChar(b2)}, code |-> TRUE]>>
  ELSE <<[k |-> "C", x |-> x, cp |-> {}, code |-> TRUE]>>        \* {} = any single character: the glyph is judged in the word check

RECURSIVE LineToks(_)
LineToks(ws) == IF ws = <<>> THEN <<>> ELSE WordToks(Head(ws)) \o LineToks(Tail(ws))

TokOk(exp, got, show) ==
  IF exp.k = "C" THEN /\ got.k = "C" /\ (exp.cp = {} \/ got.cp \in exp.cp)
                      \* a special / extended character is a code: with channels shown it carries its own channel
                      /\ (show = 1 /\ exp.code) => got.ch = Channel(B1(exp.x), B2(exp.x))
  ELSE LET b1 == B1(exp.x) b2 == B2(exp.x) cls == Class(b1, b2) IN
       /\ got.k = "G"
       /\ cls = "PAD" => got.rest = "" /\ got.row = -1
       /\ cls = "UNKNOWN" => got.rest = "??"
       /\ cls = "PAC" => got.row = PacRow(b1, b2)
       /\ cls = "CONTROL" => got.rest = ControlName(b1, b2)
       /\ cls \in {"MIDROW", "ATTR"} => got.rest # ""
       /\ (show = 1 /\ cls \in {"PAC", "MIDROW", "CONTROL", "ATTR"}) => got.ch = Channel(b1, b2)

CheckDis(ri, rec) ==
  LET exp == LineToks(rec.ws) IN
  /\ Chk(rec.head = 1, ri, 0, "disassembly_head")
  /\ Chk(Len(exp) = Len(rec.toks), ri, Len(rec.toks), "disassembly_renders_every_word")
  /\ IF Len(exp) # Len(rec.toks) THEN TRUE
     ELSE \A k \in 1..Len(exp) : Chk(TokOk(exp[k], rec.toks[k], rec.show), ri, exp[k].x, "disassembly_token")

\* records are consumed in batches of B per step (TLC's per-state overhead dominates otherwise)
B == 64
\* kind "ign": v = a code word sent on a line of its own between two channel-1 captions, same = 1 iff the reader's
\* document equals the one read with null padding in its place.  A code that CTA-608 gives to channel 2 or to neither
\* channel (field-2 control codes) is not channel-1 data: it must leave no trace.
CheckIgn(j, rec) ==
  LET b1 == rec.v \div 256  b2 == rec.v % 256 IN
  IF Class(b1, b2) \in {"PAC", "MIDROW", "SPECIAL", "EXTENDED", "CONTROL", "ATTR"} /\ Channel(b1, b2) # 1
  THEN Chk(rec.same = 1, j, rec.v, "only_channel_1_is_decoded")
  ELSE TRUE

CheckRec(j) == LET rec == Recs[j] IN
               IF rec.kind = "w" THEN \A lo \in 0..255 : CheckWord(j, rec, lo)
               ELSE IF rec.kind = "ign" THEN CheckIgn(j, rec)
               \* a long stream in which channel-1 captions alternate with data for channel 2 / field 2: the same document as
               \* with padding in place of that data, however many times the channel changes
               ELSE IF rec.kind = "ignlong" THEN Chk(rec.same = 1, j, rec.v, "only_channel_1_is_decoded_long_stream")
               ELSE CheckDis(j, rec)
Min2(a, b) == IF a < b THEN a ELSE b
TInit == i = 1 /\ w = 0
TNext == \/ /\ i <= Len(Recs)
            /\ (\A j \in i..Min2(i + B - 1, Len(Recs)) : CheckRec(j)) = TRUE   \* "= TRUE": evaluated as an expression, not as an action
            /\ i' = Min2(i + B, Len(Recs) + 1) /\ UNCHANGED w
         \/ /\ i = Len(Recs) + 1 /\ PrintT(<<"DONE", Len(Recs)>>) /\ i' = i + 1 /\ UNCHANGED w
=============================================================================
