--------------------------------- MODULE Trace_Cli ---------------------------------
(* Trace validation for C19: recorded `tt convert` invocations (ttconv.tt.main) are judged against Cli.tla.

   ndjson records:
     kind "config": c, syns       lexical classes found by the harness lexers for every setting of Cli!Configs[c]
                                  (must equal the classes the catalogue assigns: binding of the value descriptions)
     kind "lib":    key, seeds, status, cids
                                  the library composition for key = <<content, reader, writer, config, filters>> run in a
                                  fresh process per hash seed: status[k] "ok"|"error", cids[k] = content id of the bytes
                                  (index into the harness' table of distinct outputs), -1 when nothing was written
     kind "run":    id, seed, jobrecs (the job records of the history, members of Cli!AllJobs),
                    steps: per job [status "ok"|"error", exc (exception class or ""), outfile (output file exists), cid, lang]
                                  one history replayed in ONE interpreter, in order

   A run is validated by replaying the specification: hist/out evolve by Cli!Convert, and every observed step must
   be what Lib(job) prescribes - whatever was converted before (history independence) and under every hash seed.

   Verdicts: <<"FAIL", record index, step, clause>> ; clauses starting with "MACHINERY_" indict the harness.         *)
EXTENDS Cli, Json, IOUtils, TLCExt

Recs == ndJsonDeserialize(IOEnv.TRACE_FILE)

Fail(r, k, clause) == PrintT(<<"FAIL", r, k, clause>>)
Chk(cond, r, k, clause) == IF cond THEN TRUE ELSE Fail(r, k, clause)

LibIdx == {i \in 1..Len(Recs) : Recs[i].kind = "lib"}
HasLib(key) == \E i \in LibIdx : Recs[i].key = key
LibRec(key) == Recs[CHOOSE i \in LibIdx : Recs[i].key = key]

CheckConfig(r, rec) ==
  /\ Chk(rec.c \in DOMAIN Configs /\ Len(rec.syns) = Len(Configs[rec.c]), r, 0, "MACHINERY_config_binding")
  /\ \A i \in 1..Len(rec.syns) : Chk(Range(rec.syns[i]) = Configs[rec.c][i].v.syn, r, i, "MACHINERY_lexical_class_binding")

\* the library composition itself: total on accepted jobs, and the same bytes under every hash seed
CheckLib(r, rec) ==
  /\ \A k \in 1..Len(rec.status) : Chk(rec.status[k] = "ok" /\ rec.cids[k] >= 0, r, k, "library_composition_failed_on_accepted_job")
  /\ \A k \in 2..Len(rec.cids) : Chk(rec.cids[k] = rec.cids[1], r, k, "library_bytes_depend_on_hash_seed")

\* one observed step against what the specification prescribes for the job
CheckStep(r, k, job, st) ==
  LET exp == Lib(job)
      d   == Dispatch(job.cmd, job.itype, job.iext, job.otype, job.oext)
  IN
  IF exp.status = "error"
  THEN /\ Chk(st.status = "error", r, k,
              IF job.cmd # "convert" THEN "unknown_subcommand_accepted"
              ELSE IF d.error THEN "unsupported_type_accepted" ELSE "invalid_configuration_accepted")
       /\ Chk(~st.outfile, r, k, "output_file_written_despite_error")
  ELSE /\ Chk(st.status = "ok", r, k, IF Effective(job.cfgfile, job.inline) = 0 \/ job.cfgfile # 0 \/ job.inline > NCat
                                       THEN "valid_job_failed" ELSE "valid_configuration_rejected")
       /\ IF st.status # "ok" THEN TRUE
          ELSE /\ Chk(st.outfile, r, k, "no_output_file")
               /\ Chk(HasLib(exp.key), r, k, "MACHINERY_library_result_missing")
               /\ IF ~HasLib(exp.key) \/ LibRec(exp.key).status[1] # "ok" THEN TRUE
                  ELSE Chk(st.cid = LibRec(exp.key).cids[1], r, k,
                           IF k > 1 THEN "bytes_differ_from_library_after_earlier_conversions" ELSE "bytes_differ_from_library_composition")
               /\ Chk(exp.lang = "" \/ st.lang = exp.lang, r, k, "document_lang_not_applied")

\* `tab` holds the enumerated job sets: TLC re-enumerates the (lazy) set expression AllJobs at every membership test
\* otherwise (measured: 150 ms per step), a value stored in a state is enumerated once
VARIABLES i, tab

\* replay of the specification along the recorded history: h = spec history so far (job records; the job numbers of
\* Cli!JobSeq are not used here because TLC's enumeration order of a set is not stable across runs)
RECURSIVE Replay(_, _, _, _)
Replay(r, rec, k, h) ==
  IF k > Len(rec.jobrecs) THEN TRUE
  ELSE LET job == rec.jobrecs[k] IN
       /\ Chk(job \in tab.all, r, k, "MACHINERY_job_binding")
       \* the step must be enabled in the specification (Cli!Convert)
       /\ Chk(h = <<>> \/ (Len(h) < MaxHist /\ h[1] \in tab.hist /\ job \in tab.hist), r, k, "MACHINERY_history_not_in_spec")
       /\ Chk(Len(rec.steps) >= k, r, k, "MACHINERY_step_missing")
       /\ IF job \notin tab.all \/ Len(rec.steps) < k THEN TRUE
          ELSE /\ CheckStep(r, k, job, rec.steps[k])
               /\ Replay(r, rec, k + 1, Append(h, job))

CheckRec(j) ==
  LET rec == Recs[j] IN
  CASE rec.kind = "config" -> CheckConfig(j, rec)
    [] rec.kind = "lib"    -> CheckLib(j, rec)
    [] rec.kind = "run"    -> Replay(j, rec, 1, <<>>)

B == 32
Min2(a, b) == IF a < b THEN a ELSE b
TInit == i = 1 /\ tab = [all |-> AllJobs, hist |-> HistJobs] /\ globals = 0 /\ hist = <<>> /\ out = NoOut
TNext ==
  \/ /\ i <= Len(Recs)
     /\ (\A j \in i..Min2(i + B - 1, Len(Recs)) : CheckRec(j)) = TRUE       \* evaluated as an expression
     /\ i' = Min2(i + B, Len(Recs) + 1) /\ UNCHANGED <<vars, tab>>
  \/ /\ i = Len(Recs) + 1 /\ PrintT(<<"DONE", Len(Recs)>>) /\ i' = i + 1 /\ UNCHANGED <<vars, tab>>
=============================================================================
