------------------------------ MODULE Trace_Cues ------------------------------
(* Trace validation for C06 and C07: recorded writer outputs judged against Cues.tla.

   One ndjson record per document:
     D, sig            significant times reported by the implementation, integer ticks of 1/D second
     snaps[k]          projection of the snapshot at sig[k] (regions -> paragraphs -> items, see Cues.tla)
     outs[o]           one writer run: fmt "srt"|"vtt", configuration tf (SRT text_formatting), lp, ta, id (WebVTT
                       line_position, text_align, cue_id) as 0/1, raised (exception text or ""), lines (lexed output)
   Which = "C06": cue list covers the snapshot sequence (boundaries, order, text per interval)
   Which = "C07": grammar (acceptor), tag runs vs computed styles, cue settings, cue numbers
   Verdicts: <<"FAIL", record, output, clause, detail>> ; <<"DONE", number of records>>.
   detail = <<slot (ms), interval k>> for C06 probes, <<line index>> for grammar, <<interval k>> for styles/settings. *)
EXTENDS Cues, Json, IOUtils, TLCExt

CONSTANT Which

Recs == ndJsonDeserialize(IOEnv.TRACE_FILE)

Fail(r, o, clause, detail) == PrintT(<<"FAIL", r, o, clause, detail>>)
Chk(cond, r, o, clause, detail) == IF cond THEN TRUE ELSE Fail(r, o, clause, detail)

ParamsOf(out) == [fmt |-> out.fmt, ids |-> (out.fmt = "srt" \/ out.id = 1), same |-> (out.fmt = "vtt" /\ out.lp = 1), pre |-> FALSE]

\* the cues of an output: [b, e, set, toks, chars (lines of styled characters, blank lines dropped), lines (code points)]
CuesOfOut(out) ==
  LET lines  == out.lines
      starts == SortedFrom(CueStarts(lines))
      css    == IF out.fmt = "vtt" THEN CssOf(lines) ELSE {}
  IN  [j \in 1..Len(starts) |->
         LET t     == starts[j]
             toks  == PayloadToks(lines, t)
             chars == PayloadChars(out.fmt, css, toks)
         IN  [b |-> lines[t].b, e |-> lines[t].e, set |-> lines[t].set, toks |-> toks, chars |-> chars, lines |-> CpsOf(chars)]]

-----------------------------------------------------------------------------
(* C06 *)
C06Clauses == {"cue_outside_every_interval", "cue_while_nothing_is_visible", "visible_text_has_no_cue", "payload_differs_from_visible_text"}

CheckC06(r, o, rec, out, Tc, cues) ==
  LET sig   == rec.sig
      D     == rec.D
      slots == ProbeSlots(sig, D, Tc, cues)
      bad(c) == {s \in slots : ProbeVerdict(sig, D, Tc, cues, s) = c}
      badBounds == {j \in 1..Len(cues) : ~CueBoundsOk(sig, D, Tc, cues[j])}
      \* "00:04:60,000" is not a time: a minutes or seconds field of 60 or more denotes no instant at all
      badT == {k \in 1..Len(out.lines) : out.lines[k].k = "timing" /\ out.lines[k].tv # 1}
  IN  /\ Chk(badT = {}, r, o, "cue_time_is_not_a_time", IF badT = {} THEN <<>> ELSE <<SetMin(badT)>>)
      /\ Chk(badBounds = {}, r, o, "cue_boundary_is_not_a_rounded_significant_time",
             IF badBounds = {} THEN <<>> ELSE <<cues[SetMin(badBounds)].b, cues[SetMin(badBounds)].e>>)
      /\ Chk(CuesOrdered(cues, out.fmt = "vtt" /\ out.lp = 1), r, o, "cues_overlap_or_out_of_order", <<>>)
      \* "the cues are the intervals during which some non-blank text is visible": a cue whose payload has no line of text
      \* (nothing, or white space and tags only) is a cue for nothing
      /\ LET empties == {j \in 1..Len(cues) : cues[j].lines = <<>>} IN
         Chk(empties = {}, r, o, "cue_without_any_visible_text", IF empties = {} THEN <<>> ELSE <<cues[SetMin(empties)].b>>)
      /\ \A c \in C06Clauses :
           LET b == bad(c) IN
           IF b = {} THEN TRUE ELSE Fail(r, o, c, <<SetMin(b), SlotInterval(sig, D, Tc, SetMin(b))>>)

-----------------------------------------------------------------------------
(* C07 *)
HasSetting(c, name) == \E k \in 1..Len(c.set) : c.set[k].n = name
SettingOf(c, name) == c.set[CHOOSE k \in 1..Len(c.set) : c.set[k].n = name]

\* a cue made of several paragraphs has an alignment to agree with only when all the paragraphs of its region(s) -
\* including those that show nothing - have the same one
AlignOk(c, paras) ==
  IF paras = <<>> \/ \E k \in 1..Len(paras) : paras[k].ta # paras[1].ta \/ paras[k].dir # paras[1].dir
  THEN TRUE                                      \* paragraphs of the cue disagree: no single alignment to demand
  ELSE HasSetting(c, "align") /\ SettingOf(c, "align").v \in AlignValues(paras[1].ta, paras[1].dir)

LineOk(c, reg) ==
  /\ HasSetting(c, "line")
  /\ LET st == SettingOf(c, "line") IN
     /\ st.pct = 1 /\ st.v1000 >= 0 /\ LineValueOk(reg, st.v1000)
     /\ (IF st.al = "" THEN "start" ELSE st.al) = LineAlignOf(reg)

StyleDiff(exp, got, attr) ==
  \E l \in 1..Len(exp) : \E c \in 1..Len(exp[l]) :
     CASE attr = "b" -> exp[l][c].b # got[l][c].b
       [] attr = "i" -> exp[l][c].i # got[l][c].i
       [] attr = "u" -> exp[l][c].u # got[l][c].u
       [] attr = "col" -> exp[l][c].col # got[l][c].col
       [] attr = "bg" -> exp[l][c].bg # got[l][c].bg

CheckInterval07(r, o, rec, out, T, Tc, cues, k) ==
  LET sig == rec.sig
      D   == rec.D
      s   == BHi(sig, D, k)                                   \* first slot certainly inside interval k ...
      certain == k + 1 <= NBound(Tc) /\ s < BLo(sig, D, k + 1)  \* ... if there is one
      act == ActiveCues(cues, s)
      got == Flatten([j \in 1..Len(act) |-> act[j].chars])
      aligned == Flatten([j \in 1..Len(act) |-> act[j].lines]) = Tc[k]
      regs == SelectSeq(rec.snaps[k], LAMBDA reg : RegionLines(reg) # <<>>)
      perRegion == Len(act) = Len(regs) /\ \A j \in 1..Len(act) : act[j].lines = CpsOf(RegionLines(regs[j]))
      allParas == Flatten([j \in 1..Len(rec.snaps[k]) |-> rec.snaps[k][j].paras])
  IN  IF ~certain \/ Tc[k] = <<>> \/ ~aligned THEN TRUE       \* text itself is C06's business
      ELSE
      /\ IF out.fmt = "srt" /\ out.tf = 0 THEN TRUE
         ELSE /\ Chk(~StyleDiff(T[k], got, "b"), r, o, "tag_runs_bold", <<k>>)
              /\ Chk(~StyleDiff(T[k], got, "i"), r, o, "tag_runs_italic", <<k>>)
              /\ Chk(~StyleDiff(T[k], got, "u"), r, o, "tag_runs_underline", <<k>>)
              /\ Chk(~StyleDiff(T[k], got, "col"), r, o, "tag_runs_colour", <<k>>)
              /\ Chk(\A l \in 1..Len(got) : \A c \in 1..Len(got[l]) : got[l][c].rcol = 0, r, o, "colour_tag_around_default_coloured_text", <<k>>)
              /\ IF out.fmt = "vtt"
                 THEN Chk(\A l \in 1..Len(got) : \A c \in 1..Len(got[l]) : got[l][c].rbg = 0, r, o, "background_tag_around_default_background_text", <<k>>)
                 ELSE TRUE
              /\ IF out.fmt = "vtt" THEN Chk(~StyleDiff(T[k], got, "bg"), r, o, "tag_runs_background", <<k>>) ELSE TRUE
      /\ IF out.fmt # "vtt" THEN TRUE
         ELSE /\ IF out.lp = 1
                 THEN /\ Chk(perRegion, r, o, "one_cue_per_region_when_line_position", <<k>>)
                      /\ IF ~perRegion THEN TRUE
                         ELSE Chk(\A j \in 1..Len(act) : LineOk(act[j], regs[j]), r, o, "line_setting_disagrees_with_region_position", <<k>>)
                 ELSE Chk(\A j \in 1..Len(act) : ~HasSetting(act[j], "line"), r, o, "line_setting_although_not_configured", <<k>>)
              /\ IF out.ta = 1
                 THEN IF out.lp = 1
                      THEN (IF ~perRegion THEN TRUE
                            ELSE Chk(\A j \in 1..Len(act) : AlignOk(act[j], regs[j].paras), r, o,
                                     "align_setting_disagrees_with_paragraph_alignment", <<k>>))
                      ELSE Chk(\A j \in 1..Len(act) : AlignOk(act[j], allParas), r, o,
                               "align_setting_disagrees_with_paragraph_alignment", <<k>>)
                 ELSE Chk(\A j \in 1..Len(act) : ~HasSetting(act[j], "align"), r, o, "align_setting_although_not_configured", <<k>>)

CheckC07(r, o, rec, out, T, Tc, cues) ==
  LET P   == ParamsOf(out)
      res == Accepted(P, out.lines)
  IN  /\ Chk(res.ok, r, o, "grammar_" \o res.why, <<res.at>>)
      /\ IF out.fmt = "srt" /\ out.tf = 0
         THEN Chk(\A j \in 1..Len(cues) : \A x \in 1..Len(cues[j].toks) : cues[j].toks[x].k \notin {"o", "c"}, r, o,
                  "tags_although_text_formatting_disabled", <<>>)
         ELSE TRUE
      /\ \A k \in 1..Len(Tc) : CheckInterval07(r, o, rec, out, T, Tc, cues, k)

-----------------------------------------------------------------------------
CheckOut(r, o, rec, T, Tc) ==
  LET out == rec.outs[o] IN
  IF out.raised # "" THEN Fail(r, o, "writer_raised", <<>>)
  ELSE LET cues == CuesOfOut(out) IN
       IF Which = "C06" THEN CheckC06(r, o, rec, out, Tc, cues)
       ELSE CheckC07(r, o, rec, out, T, Tc, cues)

CheckRec(r) ==
  LET rec == Recs[r]
      T   == [k \in 1..Len(rec.snaps) |-> TextAt(rec.snaps[k])]
      Tc  == [k \in 1..Len(rec.snaps) |-> CpsOf(T[k])]
  IN  \A o \in 1..Len(rec.outs) : CheckOut(r, o, rec, T, Tc)

B == 4
Min2(a, b) == IF a < b THEN a ELSE b

VARIABLE i
tvars == <<i, acc, accP, hist>>
TInit == i = 1 /\ acc = 0 /\ accP = 0 /\ hist = <<>>
TNext ==
  \/ /\ i <= Len(Recs)
     /\ (\A j \in i..Min2(i + B - 1, Len(Recs)) : CheckRec(j)) = TRUE       \* evaluated as an expression
     /\ i' = Min2(i + B, Len(Recs) + 1) /\ UNCHANGED <<acc, accP, hist>>
  \/ /\ i = Len(Recs) + 1 /\ PrintT(<<"DONE", Len(Recs)>>) /\ i' = i + 1 /\ UNCHANGED <<acc, accP, hist>>
=============================================================================
