-------------------------------- MODULE Trace_Imsc --------------------------------
(* Trace validation for C04: every recorded reading of a TTML document by ttconv.imsc.reader, observed through
   ISD.from_model at the recorded times, must show what spec/Imsc.tla computes for the XML tree.

   ndjson records
     kind "doc"     P, space, lang (attributes of tt), N (node table, times as expression records), S, I,
                    T (probe times, base ticks), crashed (0 | 1 reader raised | 2 snapshot raised),
                    obs[j] = [regs |-> sequence of [rid, leaves, rsty]],  leaves in document order:
                    [tag, path (element kinds body .. text), chain (per element body .. holder the tokens of
                    ObsProps), space, lang];  logs, logs_base (numbers of ttconv.imsc records >= WARNING)
     kind "corrupt" the same, where N/P/S/I describe the document WITHOUT the one malformed attribute that the XML
                    actually read carried: the observation must be that of the document without it, and the reader
                    must have logged (logs > logs_base, logs_base = count for the XML without the attribute)
     kind "unknown_tt" the same for an attribute that is not in the vocabulary but in a TT namespace (or in none): meaning
                    unchanged and logged;  kind "unknown": an attribute in a foreign namespace: meaning unchanged (TTML allows
                    foreign attributes: no log demanded, counted)
     kind "forms"   prop, distinct, items = sequence of [form, crashed, tok, logs] : legal lexical forms read from one
                    element; tok = token of the computed value ("-" when absent); distinct = 0: the forms are equivalent
                    (same token demanded), distinct = 1: forms 2.. denote values different from form 1
   Verdicts: <<"FAIL", record index, time index, clause, detail>>; <<"SKIP", record index, why>> for records outside
   the domain of the timing clauses; <<"DONE", n>> when everything is consumed.                                      *)
EXTENDS Imsc, Json, IOUtils, TLCExt

Recs == ndJsonDeserialize(IOEnv.TRACE_FILE)
NoShapes == <<>>             \* the constants of the design-level machine are not used here
NoChoices == {}

Fail(r, j, clause, detail) == PrintT(<<"FAIL", r, j, clause, detail>>)
Chk(cond, r, j, clause, detail) == IF cond THEN TRUE ELSE Fail(r, j, clause, detail)

SeqEq(a, b) == Len(a) = Len(b) /\ \A k \in 1..Len(a) : a[k] = b[k]
SeqSeqEq(a, b) == Len(a) = Len(b) /\ \A k \in 1..Len(a) : SeqEq(a[k], b[k])

NormNode(nd, P) == [nd EXCEPT !.b = Ticks(nd.b, P), !.d = Ticks(nd.d, P), !.e = Ticks(nd.e, P)]
AllExact(rec) == \A x \in 1..Len(rec.N) : Exact(rec.N[x].b, rec.P) /\ Exact(rec.N[x].d, rec.P) /\ Exact(rec.N[x].e, rec.P)

\* the clause reported for a record with a malformed / unknown attribute names what the property demands of it
Cl(rec, clause) == IF rec.kind = "doc" THEN clause ELSE "ignored_attribute_changed_meaning"

TextNodes(N) == SelectSeq([i \in 1..Len(N) |-> i], LAMBDA x : N[x].kind = "text")
Rids(N) == IF RegionNodes(N) = {} THEN {""} ELSE {N[x].rid : x \in RegionNodes(N)}
ObsRids(o) == {o.regs[i].rid : i \in 1..Len(o.regs)}
ObsReg(o, rid) == o.regs[CHOOSE i \in 1..Len(o.regs) : o.regs[i].rid = rid]
ObsLeaves(o, rid) == IF rid \in ObsRids(o) THEN ObsReg(o, rid).leaves ELSE <<>>
AllObsTags(o) == UNION {{o.regs[i].leaves[k].tag : k \in 1..Len(o.regs[i].leaves)} : i \in 1..Len(o.regs)}

CheckLeaf(r, j, rec, N, iv, spec, t, x, ol) ==
  /\ Chk(SeqEq(ol.path, LeafPath(N, x)), r, j, Cl(rec, "structure_path"), N[x].tag)
  /\ Chk(ol.space = NearestAttr(N, N[x].parent, "space", IF rec.space = "" THEN "default" ELSE rec.space),
         r, j, Cl(rec, "space"), N[x].tag)
  /\ Chk(ol.lang = NearestAttr(N, N[x].parent, "lang", rec.lang), r, j, Cl(rec, "lang"), N[x].tag)
  /\ IF StyleGraphAcyclic(rec.S)
     THEN Chk(SeqSeqEq(ol.chain, LeafChain(N, rec.I, spec, iv, x, t)), r, j, Cl(rec, "style_token"), N[x].tag)
     ELSE TRUE

\* a white-space-only leaf (tag " ", generated as the first text of its paragraph) is presented iff xml:space="preserve"
\* applies to it; every other leaf as in Imsc!XmlVisible
TVisible(rec, N, iv, x, t) ==
  /\ XmlShown(N, iv, x, t)
  /\ N[x].tag = " " => NearestAttr(N, N[x].parent, "space", IF rec.space = "" THEN "default" ELSE rec.space) = "preserve"

CheckRegion(r, j, rec, N, iv, spec, t, rid, o) ==
  LET exp == SelectSeq(TextNodes(N), LAMBDA x : TVisible(rec, N, iv, x, t) /\ RegionOf(N, x) = rid)
      ol  == ObsLeaves(o, rid)
  IN  IF ~(Len(ol) = Len(exp) /\ \A k \in 1..Len(ol) : ol[k].tag = N[exp[k]].tag)
      THEN Fail(r, j, Cl(rec, "region_of"), rid)
      ELSE /\ \A k \in 1..Len(ol) : CheckLeaf(r, j, rec, N, iv, spec, t, exp[k], ol[k])
           /\ IF Len(exp) > 0 /\ rid # "" /\ StyleGraphAcyclic(rec.S)
              THEN Chk(SeqEq(ObsReg(o, rid).rsty, Tokens(N, rec.I, spec, iv, RegionNode(N, rid), t, 0)),
                       r, j, Cl(rec, "region_style_token"), rid)
              ELSE TRUE

CheckTime(r, rec, N, iv, spec, j) ==
  LET t == rec.T[j]
      o == rec.obs[j]
      expAll == {N[x].tag : x \in {y \in 1..Len(N) : TVisible(rec, N, iv, y, t)}}
  IN  IF AllObsTags(o) # expAll THEN Fail(r, j, Cl(rec, "visible_set"), "")
      ELSE \A rid \in Rids(N) \cup ObsRids(o) : CheckRegion(r, j, rec, N, iv, spec, t, rid, o)

CheckDoc(r, rec) ==
  LET N    == TLCEval([x \in 1..Len(rec.N) |-> NormNode(rec.N[x], rec.P)])
      iv   == Intervals(N)
      spec == TLCEval([x \in 1..Len(N) |-> Specified(rec.S, N[x])])
  IN  IF ~AllExact(rec) THEN Fail(r, 0, "machinery_inexact_time", "")
      ELSE IF ~TimingInDomain(N, iv) THEN PrintT(<<"SKIP", r, "outside_timing_domain">>)
      ELSE IF rec.crashed = 1 THEN Fail(r, 0, IF rec.kind = "doc" THEN "reader_crashed" ELSE "ignored_attribute_crashed", "")
      ELSE IF rec.crashed = 2 THEN Fail(r, 0, "snapshot_crashed", "")
      ELSE /\ (\A j \in 1..Len(rec.T) : CheckTime(r, rec, N, iv, spec, j))
           /\ IF rec.kind = "corrupt" THEN Chk(rec.logs > rec.logs_base, r, 0, "ignored_attribute_not_logged", "") ELSE TRUE
           \* an unknown attribute in a TT namespace (or without namespace) must be reported; attributes in foreign namespaces
           \* are legal in TTML: no report is demanded, they are counted
           /\ IF rec.kind = "unknown_tt" THEN Chk(rec.logs > rec.logs_base, r, 0, "unknown_attribute_not_logged", "") ELSE TRUE
           /\ IF rec.kind = "unknown" /\ rec.logs <= rec.logs_base THEN PrintT(<<"NOTE", r, "foreign_attribute_not_reported">>) ELSE TRUE

CheckForms(r, rec) ==
  LET it == rec.items IN
  /\ \A k \in 1..Len(it) :
        /\ Chk(it[k].crashed = 0, r, k, "valid_value_crashed", it[k].form)
        /\ IF it[k].crashed = 0
           THEN /\ Chk(it[k].tok # "-", r, k, "valid_value_dropped", it[k].form)
                /\ Chk(it[k].logs = 0, r, k, "valid_value_logged", it[k].form)
           ELSE TRUE
  /\ \A k \in 2..Len(it) :
        IF it[k].crashed = 0 /\ it[1].crashed = 0 /\ it[k].tok # "-" /\ it[1].tok # "-"
        THEN IF rec.distinct = 0
             THEN Chk(it[k].tok = it[1].tok, r, k, "equivalent_forms_differ", it[k].form)
             ELSE Chk(it[k].tok # it[1].tok, r, k, "distinct_forms_equal", it[k].form)
        ELSE TRUE

CheckRec(r) == IF Recs[r].kind = "forms" THEN CheckForms(r, Recs[r]) ELSE CheckDoc(r, Recs[r])

B == 16
VARIABLE i
tvars == <<i, sh, asg, cur, gone>>
TInit == i = 1 /\ sh = 0 /\ asg = <<>> /\ cur = 0 /\ gone = {}
TNext ==
  \/ /\ i <= Len(Recs)
     /\ (\A j \in i..Min2(i + B - 1, Len(Recs)) : CheckRec(j)) = TRUE       \* evaluated as an expression
     /\ i' = Min2(i + B, Len(Recs) + 1) /\ UNCHANGED vars
  \/ /\ i = Len(Recs) + 1 /\ PrintT(<<"DONE", Len(Recs)>>) /\ i' = i + 1 /\ UNCHANGED vars
=============================================================================
