------------------------------ MODULE Trace_ImscWrite ------------------------------
(* Trace validation for C05.  One record per (document built with the model API, writer configuration):
     cfg [fmt, fn, fd], D (ticks per second of this case),
     outcome  "written" | "writer_exception" (errtype = exception class; nothing was written) | "reader_raised" |
              "reader_none",
     errs     number of ttconv.imsc records >= WARNING emitted while the written bytes were read back,
     A, B     projections of the document and of the re-read document:
              [lang, cell <<cols, rows>>, px <<w, h>>, has_px, aa (tokens), dar, initials, regions, N]
              regions: [id, b, e, space, lang, styles, steps]; N (preorder): [kind, parent, kids, id, reg, space, lang,
              b, e, styles, steps, text]; b = begin in ticks (0 when absent), e = end in ticks (-1 when absent);
              styles = sorted <<property, token>>, steps = <<property, token, b, e>> in order
     probes   [t, a, b]: the snapshots of both documents at the same time t, each a sequence of
              [rid, leaves = sequence of [path, text]]
   SameModuloQ(A, B): the same document up to the admitted quantisation Q of spec/ImscWrite.tla.
   An absent end (indefinite) may come back as any end: what it then shows is judged by the snapshots.
   Verdicts <<"FAIL", record index, clause, detail>>, <<"DONE", n>>.                                              *)
EXTENDS ImscWrite, Json, IOUtils, TLCExt

Recs == ndJsonDeserialize(IOEnv.TRACE_FILE)
NoConfigs == {}

Fail(r, clause, detail) == PrintT(<<"FAIL", r, clause, detail>>)
Chk(cond, r, clause, detail) == IF cond THEN TRUE ELSE Fail(r, clause, detail)

SeqEq(a, b) == Len(a) = Len(b) /\ \A k \in 1..Len(a) : a[k] = b[k]

TimeOk(u, ta, tb) == Q(u, ta, tb)
EndOk(u, ea, eb) == IF ea = -1 THEN TRUE ELSE eb # -1 /\ Q(u, ea, eb)

\* times of the animation steps that both documents have (a missing step is reported by the clause animation_steps)
StepsOk(u, sa, sb) ==
  \A k \in 1..Len(sa) : k <= Len(sb) =>
      /\ TimeOk(u, sa[k][3], sb[k][3])
      /\ (IF sa[k][4] = -1 THEN sb[k][4] = -1 ELSE sb[k][4] # -1 /\ Q(u, sa[k][4], sb[k][4]))

\* all times of a timed item list (nodes or regions), as two aligned sequences (only times present in A)
RECURSIVE Times(_, _, _, _)
Times(xa, xb, k, acc) ==
  IF k > Len(xa) THEN acc
  ELSE LET a == xa[k]  b == xb[k]
           withB == <<Append(acc[1], a.b), Append(acc[2], b.b)>>
           withE == IF a.e # -1 /\ b.e # -1 THEN <<Append(withB[1], a.e), Append(withB[2], b.e)>> ELSE withB
           RECURSIVE St(_, _)
           St(j, ac) == IF j > Len(a.steps) \/ j > Len(b.steps) THEN ac
                        ELSE LET w1 == <<Append(ac[1], a.steps[j][3]), Append(ac[2], b.steps[j][3])>>
                                 w2 == IF a.steps[j][4] # -1 /\ b.steps[j][4] # -1
                                       THEN <<Append(w1[1], a.steps[j][4]), Append(w1[2], b.steps[j][4])>> ELSE w1
                             IN  St(j + 1, w2)
       IN  Times(xa, xb, k + 1, St(1, withE))

CheckItem(r, u, what, a, b) ==
  /\ Chk(a.id = b.id, r, "id", what)
  /\ Chk(a.space = b.space, r, "space", what)
  /\ Chk(a.lang = b.lang, r, "lang", what)
  /\ Chk(SeqEq(a.styles, b.styles), r, "style_tokens", what)
  /\ Chk(Len(a.steps) = Len(b.steps) /\ \A k \in 1..Len(a.steps) : a.steps[k][1] = b.steps[k][1] /\ a.steps[k][2] = b.steps[k][2],
         r, "animation_steps", what)
  /\ Chk(TimeOk(u, a.b, b.b) /\ EndOk(u, a.e, b.e) /\ StepsOk(u, a.steps, b.steps), r, "time_Q", what)

CheckNode(r, u, x, a, b) ==
  LET what == a.kind IN
  /\ Chk(a.kind = b.kind, r, "element_kind", what)
  /\ Chk(a.parent = b.parent /\ SeqEq(a.kids, b.kids), r, "tree_shape", what)
  /\ Chk(a.reg = b.reg, r, "region_ref", what)
  /\ Chk(a.text = b.text, r, "text", what)
  /\ CheckItem(r, u, what, a, b)

SameModuloQ(r, u, A, B) ==
  /\ Chk(A.lang = B.lang, r, "doc_lang", "")
  /\ Chk(SeqEq(A.cell, B.cell), r, "cell_resolution", "")
  /\ Chk(A.has_px = 0 \/ SeqEq(A.px, B.px), r, "px_extent", "")
  /\ Chk(SeqEq(A.aa, B.aa), r, "active_area", "")
  /\ Chk(A.dar = B.dar, r, "aspect_ratio", "")
  /\ Chk(SeqEq(A.initials, B.initials), r, "initial_values", "")
  /\ IF Len(A.regions) # Len(B.regions) THEN Fail(r, "regions", "")
     ELSE \A k \in 1..Len(A.regions) : CheckItem(r, u, "region", A.regions[k], B.regions[k])
  /\ IF Len(A.N) # Len(B.N) THEN Fail(r, "tree_shape", "element count")
     ELSE /\ \A x \in 1..Len(A.N) : CheckNode(r, u, x, A.N[x], B.N[x])
          /\ IF Len(A.regions) = Len(B.regions)
             THEN LET tt == Times(A.regions, B.regions, 1, Times(A.N, B.N, 1, <<<<>>, <<>>>>))
                  IN  Chk(NeverSwaps(tt[1], tt[2]), r, "time_order", "")
             ELSE TRUE

CheckRec(r) ==
  LET rec == Recs[r]
      c   == rec.cfg
  IN  CASE rec.outcome = "writer_exception" ->
             \* RejectConfig: a documented rejection (ValueError, nothing written) is an admitted outcome
             IF Rejected(c) /\ rec.errtype = "ValueError" THEN TRUE ELSE Fail(r, "writer_raised", rec.err)
        [] rec.outcome = "reader_raised" -> Fail(r, "reader_raised_on_written_document", rec.err)
        [] rec.outcome = "reader_none" -> Fail(r, "reader_raised_on_written_document", "no document")
        [] OTHER ->
             IF Rejected(c) THEN PrintT(<<"NOTE", r, "documented_rejection_not_enforced">>)
             ELSE IF ~UnitExact(c, rec.D) THEN Fail(r, "machinery_inexact_unit", "")
             ELSE /\ Chk(rec.errs = 0, r, "reader_rejected_written_value", rec.err)
                  /\ SameModuloQ(r, Unit(c, rec.D), rec.A, rec.B)
                  /\ \A k \in 1..Len(rec.probes) : Chk(rec.probes[k].a = rec.probes[k].b, r, "snapshot", rec.probes[k].t)

B == 16
Min2(a, b) == IF a < b THEN a ELSE b
VARIABLE i
tvars == <<i, cfg, t, q, out>>
TInit == i = 1 /\ cfg = <<>> /\ t = 0 /\ q = 0 /\ out = ""
TNext ==
  \/ /\ i <= Len(Recs)
     /\ (\A j \in i..Min2(i + B - 1, Len(Recs)) : CheckRec(j)) = TRUE
     /\ i' = Min2(i + B, Len(Recs) + 1) /\ UNCHANGED vars
  \/ /\ i = Len(Recs) + 1 /\ PrintT(<<"DONE", Len(Recs)>>) /\ i' = i + 1 /\ UNCHANGED vars
=============================================================================
