---------------------------- MODULE Trace_IsdFilters ----------------------------
(* Judges what the filters of ttconv.filters did to real objects against IsdFilters.tla.

   One ndjson record per filter application (a step).  Style sets are JSON objects  property name -> value token
   (tokens stand for values that compare equal), trees are  {kind, id, styles, children, text}  objects; elements
   of content documents have  anims : [{p, v, b, e}]  in addition.

     id   number of the record                       f   the filter applied
     f = "mr" | "mp"     before, after : the ISD (array of regions) before and after
     f = "ks"            + sup : {property: [supported tokens]} ([] = every value)
     f = "rd"            + defs : {property: default token}, inh : [inherited properties],
                           interned : 1 iff equal values are one object in the input (then the result is determined;
                           otherwise the implementation may keep a default under an equal-valued parent)
     f = "ra"            before, after : one element;  rec : 1 recursive;  flag0, flag1 : has_removed_animations
     f = "ke"            before, after : one element;  rec;  sup
     f = "ki"            before, after : the initial values of a document (style sets);  sup

   A failing clause prints <<"FAIL", record index, detail, clause>>; the last step prints <<"DONE", number of records>>. *)
EXTENDS IsdFilters, Json, IOUtils, TLCExt

Recs == ndJsonDeserialize(IOEnv.TRACE_FILE)
VARIABLE i

Fail(r, x, clause) == PrintT(<<"FAIL", r, x, clause>>)
Chk(cond, r, x, clause) == IF cond THEN TRUE ELSE Fail(r, x, clause)

SetOf(s) == {s[j] : j \in DOMAIN s}
SupOf(rec) == [p \in DOMAIN rec.sup |-> SetOf(rec.sup[p])]

\* first position at which two sequences differ (0: equal)
RECURSIVE FirstDiff(_, _, _)
FirstDiff(a, b, j) == IF j > Len(a) /\ j > Len(b) THEN 0
                      ELSE IF j > Len(a) \/ j > Len(b) THEN j
                      ELSE IF a[j] # b[j] THEN j ELSE FirstDiff(a, b, j + 1)

StylesOf(fl) == [j \in 1..Len(fl) |-> fl[j].styles]

\* observed = expected, aspect by aspect
SameAs(obs, exp, r, pre) ==
  LET fo == FlatIsd(obs)  fe == FlatIsd(exp) IN
  /\ Chk(Ids(obs) = Ids(exp), r, FirstDiff(Ids(obs), Ids(exp), 1), pre \o "_region_ids")
  /\ Chk(Skel(fo) = Skel(fe), r, FirstDiff(Skel(fo), Skel(fe), 1), pre \o "_tree_shape")
  /\ Chk(ItemsIsd(obs) = ItemsIsd(exp), r, FirstDiff(ItemsIsd(obs), ItemsIsd(exp), 1), pre \o "_text_order")
  /\ IF Skel(fo) # Skel(fe) THEN TRUE
     ELSE Chk(StylesOf(fo) = StylesOf(fe), r, FirstDiff(StylesOf(fo), StylesOf(fe), 1), pre \o "_styles")

\* for every node (pre-order), the styles of its parent (none for a region)
RECURSIVE ParentStyles(_, _)
ParentStyles(n, pst) == <<pst>> \o ConcatAll([j \in 1..NK(n) |-> ParentStyles(n.children[j], n.styles)])
ParentStylesIsd(x) == ConcatAll([r \in 1..Len(x) |-> ParentStyles(x[r], NoS)])

CheckRd(rec, r) ==
  LET x == rec.before  y == rec.after
      defs == rec.defs  inh == SetOf(rec.inh)
      fx == FlatIsd(x)  fy == FlatIsd(y)
      same == Skel(fx) = Skel(fy) IN
  /\ Chk(Ids(y) = Ids(x), r, 0, "rd_region_ids")
  /\ Chk(same, r, FirstDiff(Skel(fy), Skel(fx), 1), "rd_tree_shape")
  /\ Chk(ItemsIsd(y) = ItemsIsd(x), r, 0, "rd_text_order")
  /\ IF ~same THEN TRUE
     ELSE LET spec == FlatIsd(RemoveDefaults(x, defs, inh))
              must == FlatIsd(MustGo(x, defs, inh))
              \* nodes at which a pair that does not hold the default has gone, or a pair has appeared or changed
              bad == {j \in 1..Len(fx) :
                        \/ ~(DOMAIN fy[j].styles \subseteq DOMAIN fx[j].styles)
                        \/ \E p \in DOMAIN fx[j].styles :
                              IF p \in DOMAIN fy[j].styles THEN fy[j].styles[p] # fx[j].styles[p]
                              ELSE ~(p \in DOMAIN defs /\ fx[j].styles[p] = defs[p])}
              left == {j \in 1..Len(fx) : \E p \in DOMAIN must[j].styles : p \in DOMAIN fy[j].styles}
              kept == {j \in 1..Len(fx) : \E p \in DOMAIN fy[j].styles : p \notin DOMAIN spec[j].styles}
              cx == StylesOf(FlatIsd(Computed(x, defs, inh)))  cy == StylesOf(FlatIsd(Computed(y, defs, inh)))
              \* pairs that had to stay (the node computes another value without them) and are gone ...
              wrong == {jp \in UNION {{<<j, p>> : p \in DOMAIN spec[j].styles} : j \in 1..Len(fx)} : jp[2] \notin DOMAIN fy[jp[1]].styles}
              \* ... all of them at nodes whose parent, in the result, does not hold the property: the value came from further up
              par == ParentStylesIsd(y)
              acrossGap == wrong # {} /\ \A jp \in wrong : jp[2] \notin DOMAIN par[jp[1]]
          IN
          /\ Chk(bad = {}, r, bad, "rd_non_default_removed")
          /\ Chk(left = {}, r, left, "rd_default_left_behind")
          /\ IF bad # {} THEN TRUE
             ELSE /\ Chk(cx = cy, r, FirstDiff(cx, cy, 1),
                         IF acrossGap THEN "rd_forced_default_removed_across_gap" ELSE "rd_computed_style_changed")
                  /\ Chk(FlatRead(y, defs) = FlatRead(x, defs), r, 0, "rd_flat_reading_changed")
                  /\ (IF rec.interned = 1 /\ cx = cy THEN Chk(kept = {}, r, kept, "rd_removable_default_kept") ELSE TRUE)

StripAnims(fl) == [j \in 1..Len(fl) |-> [fl[j] EXCEPT !.anims = <<>>]]
AnimsOf(fl) == [j \in 1..Len(fl) |-> fl[j].anims]

CheckRa(rec, r) ==
  LET x == rec.before  y == rec.after  recur == (rec.rec = 1)
      fx == DFlat(x, 0)  fy == DFlat(y, 0)  fe == DFlat(RaNode(x, recur), 0) IN
  /\ Chk(StripAnims(fy) = StripAnims(fx), r, FirstDiff(StripAnims(fy), StripAnims(fx), 1), "ra_element_changed")
  /\ IF Len(fy) # Len(fx) THEN TRUE
     ELSE LET scope == IF recur THEN 1..Len(fx) ELSE {1}
              leftover == {j \in scope : fy[j].anims # <<>>}
              outside == {j \in (1..Len(fx)) \ scope : fy[j].anims # fx[j].anims} IN
          /\ Chk(leftover = {}, r, leftover, "ra_steps_left")
          /\ Chk(outside = {}, r, outside, "ra_steps_removed_out_of_scope")
          /\ Chk(AnimsOf(fy) = AnimsOf(fe), r, 0, "ra_not_spec_result")
  /\ Chk((rec.flag1 = 1) = ((rec.flag0 = 1) \/ HasAnims(x, recur)), r, rec.flag1, "ra_flag")

CheckKe(rec, r) ==
  LET x == rec.before  y == rec.after
      fx == DFlat(x, 0)  fy == DFlat(y, 0)  fe == DFlat(KeepNode(x, SupOf(rec), rec.rec = 1), 0)
      strip(fl) == [j \in 1..Len(fl) |-> [fl[j] EXCEPT !.styles = NoS]] IN
  /\ Chk(strip(fy) = strip(fx), r, FirstDiff(strip(fy), strip(fx), 1), "ke_element_changed")
  /\ IF Len(fy) # Len(fx) THEN TRUE
     ELSE Chk(StylesOf(fy) = StylesOf(fe), r, FirstDiff(StylesOf(fy), StylesOf(fe), 1), "ke_styles")

CheckKi(rec, r) ==
  LET e == KeepStyles(rec.before, SupOf(rec)) IN
  /\ Chk(\A p \in DOMAIN rec.after : p \in DOMAIN rec.before /\ Supports(SupOf(rec), p, rec.after[p]) /\ rec.after[p] = rec.before[p],
         r, 0, "ki_unsupported_initial_left")
  /\ Chk(\A p \in DOMAIN e : p \in DOMAIN rec.after, r, 0, "ki_supported_initial_removed")

CheckRec(j) ==
  LET rec == Recs[j] IN
  CASE rec.f = "mr" -> SameAs(rec.after, MergeRegions(rec.before), j, "mr")
    [] rec.f = "mp" -> SameAs(rec.after, MergeParagraphs(rec.before), j, "mp")
    [] rec.f = "ks" -> SameAs(rec.after, KeepSupported(rec.before, SupOf(rec)), j, "ks")
    [] rec.f = "rd" -> CheckRd(rec, j)
    [] rec.f = "ra" -> CheckRa(rec, j)
    [] rec.f = "ke" -> CheckKe(rec, j)
    [] rec.f = "ki" -> CheckKi(rec, j)
    [] OTHER -> Fail(j, rec.f, "unknown_filter")

B == 32
Min2(a, b) == IF a < b THEN a ELSE b
TInit == /\ i = 1
         /\ init = <<>> /\ isd = <<>> /\ doc0 = NoDoc /\ doc = NoDoc /\ flag = FALSE /\ hist = <<>>
TNext == \/ /\ i <= Len(Recs)
            /\ (\A j \in i..Min2(i + B - 1, Len(Recs)) : CheckRec(j)) = TRUE
            /\ i' = Min2(i + B, Len(Recs) + 1) /\ UNCHANGED vars
         \/ /\ i = Len(Recs) + 1
            /\ PrintT(<<"DONE", Len(Recs)>>)
            /\ i' = i + 1 /\ UNCHANGED vars
=============================================================================
