------------------------------- MODULE Trace_IsdOps -------------------------------
(* Replays recorded histories of operations on one real document object through IsdOps!Do.

   ndjson record: id, fp0 (fingerprint before), ops (names), fps (fingerprint after each call),
   res (result token of each call; for snapshots the token lists only regions that paint something, so
   token equality is rendering equality), raised (1 if the call raised).
   Clauses: c14_source_changed, c14_repeat_differs, c14_cached_differs_from_uncached.               *)
EXTENDS IsdOps, Json, IOUtils, TLCExt

Recs == ndJsonDeserialize(IOEnv.TRACE_FILE)
Fail(r, x, clause) == PrintT(<<"FAIL", r, x, clause>>)
Chk(cond, r, x, clause) == IF cond THEN TRUE ELSE Fail(r, x, clause)

\* rec.twin[k] names the cached/uncached twin of a snapshot operation ("snapC_1" <-> "snapU_1"), "" otherwise
\* walk one history: m = memo so far as a sequence of <<op, result>> pairs
RECURSIVE Walk(_, _, _)
Lookup(m, op) == LET hits == {k \in 1..Len(m) : m[k][1] = op} IN IF hits = {} THEN "?" ELSE m[CHOOSE k \in hits : TRUE][2]
Walk(rec, k, m) ==
  IF k > Len(rec.ops) THEN TRUE
  ELSE LET op == rec.ops[k] res == rec.res[k] IN
       \* a call that raises is property C18's business; it must still leave the source unchanged
       /\ Chk(rec.fps[k] = rec.fp0, rec.id, k, "c14_source_changed")
       /\ IF rec.raised[k] = 1 THEN TRUE ELSE
          /\ Chk(Lookup(m, op) \in {"?", res}, rec.id, k, "c14_repeat_differs")
          /\ IF rec.twin[k] # "" THEN Chk(Lookup(m, rec.twin[k]) \in {"?", res}, rec.id, k, "c14_cached_differs_from_uncached") ELSE TRUE
       /\ Walk(rec, k + 1, IF rec.raised[k] = 1 THEN m ELSE Append(m, <<op, res>>))

CheckRec(r) == Walk(Recs[r], 1, <<>>)

B == 32
Min2(a, b) == IF a < b THEN a ELSE b
VARIABLE i
TInit == i = 1 /\ doc = "d0" /\ cache = "absent" /\ memo = [o \in Ops |-> Unknown] /\ hist = <<>>
TNext ==
  \/ /\ i <= Len(Recs)
     /\ (\A j \in i..Min2(i + B - 1, Len(Recs)) : CheckRec(j)) = TRUE
     /\ i' = Min2(i + B, Len(Recs) + 1) /\ UNCHANGED vars
  \/ /\ i = Len(Recs) + 1 /\ PrintT(<<"DONE", Len(Recs)>>) /\ i' = i + 1 /\ UNCHANGED vars
=============================================================================
