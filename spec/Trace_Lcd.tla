--------------------------------- MODULE Trace_Lcd ---------------------------------
(* Trace validation for C16: every recorded run of ttconv's LCDDocFilter on a real document is judged
   with the postconditions of Lcd.tla (the very predicates TLC checks on the specification).

   One ndjson record per (document, configuration):
     id        record number (1-based, = position in the file)
     kind      "family" (built from a member of Lcd!Family enumerated by TLC) | "random" (seeded generator)
     cfg       [sa, pta, color, bg]
     before    projection of the document before the filter (shape of Lcd.tla)
     raised    "" or the class name of the exception raised by LCDDocFilter(config).process(doc)
     after     projection after the filter (= before when raised # "")
     raised2   "" or the exception class of a second application ; after2 = projection after it
     obs_raised "" or the exception class raised by ISD.from_model on the filtered document
     ticks     the query times (half seconds): every boundary of the document before the filter, 0, one after the last
     visb      per tick: text ids ISD.from_model shows for the document before the filter
     obsa      per tick: [tid, color, bg, ta] of every text ISD.from_model shows after the filter
               (computed colour of the span, computed background and textAlign of its paragraph)

   Verdict lines: <<"FAIL", id, clause>>.  Clauses starting with "MACHINERY_" indict the harness, not ttconv.
   <<"NOTE", id, what>> lines are counted only.                                                      *)
EXTENDS Lcd, Json, IOUtils, TLCExt

Recs == ndJsonDeserialize(IOEnv.TRACE_FILE)

Fail(r, clause) == PrintT(<<"FAIL", r, clause>>)
Note(r, what) == PrintT(<<"NOTE", r, what>>)
Chk(cond, r, clause) == IF cond THEN TRUE ELSE Fail(r, clause)

ObsTids(sq) == {sq[k].tid : k \in 1..Len(sq)}
NodeOfTid(d, tid) == CHOOSE n \in 1..NN(d) : d.nodes[n].tid = tid
HasTid(d, tid) == \E n \in 1..NN(d) : d.nodes[n].tid = tid

\* observed text timeline: the same set of text ids at every tick, before and after
Obs_SameTextTimeline(rec) ==
  /\ Len(rec.visb) = Len(rec.obsa)
  /\ \A t \in 1..Min2(Len(rec.visb), Len(rec.obsa)) : Range(rec.visb[t]) = ObsTids(rec.obsa[t])

\* observed computed values of one visible text
Obs_ColorOk(rec, o) == rec.cfg.color # "none" => o.color = rec.cfg.color
Obs_BgOk(rec, o)    == rec.cfg.bg # "none" => o.bg = rec.cfg.bg
Obs_TaOk(rec, o) ==
  IF ~rec.cfg.pta THEN o.ta = "center"
  ELSE IF RegionConflict(rec.before) \/ ~HasTid(rec.before, o.tid) THEN TRUE
  ELSE LET n == NodeOfTid(rec.before, o.tid) IN
       ParaOf(rec.before, n) # 0 => o.ta = ComputedTa(rec.before, n)

Obs_All(rec, P(_, _)) == \A t \in 1..Len(rec.obsa) : \A k \in 1..Len(rec.obsa[t]) : P(rec, rec.obsa[t][k])

SpecAgreesWithIsd(rec) ==
  \A t \in 1..Len(rec.visb) : Range(rec.visb[t]) = TextAt(rec.before, rec.ticks[t])

CheckRec(j) ==
  LET rec == Recs[j]
      r   == rec.id
      bf  == rec.before
      af  == rec.after
  IN
  /\ Chk(rec.kind # "family" \/ bf \in Family, r, "MACHINERY_family_binding")
  /\ Chk(rec.raised = "", r, "filter_raised")
  /\ IF rec.raised # "" THEN TRUE
     ELSE
       /\ Chk(Post_NoSteps(af), r, "no_steps")
       /\ Chk(Post_OnlyAllowedStyles(af), r, "allowed_styles")
       /\ Chk(Post_AsConfigured(af, rec.cfg), r, "styles_as_configured")
       /\ Chk(Post_SafeArea(af, rec.cfg), r, "safe_area")
       /\ Chk(Post_TreeKept(bf, af), r, "tree_kept")
       /\ IF ~Post_TreeKept(bf, af) THEN TRUE
          ELSE /\ Chk(Post_Merged(bf, af, rec.cfg), r, "merged")
               /\ Chk(Post_Redirected(bf, af), r, "references_redirected")
       /\ Chk(rec.raised2 = "", r, "second_application_raised")
       /\ Chk(rec.raised2 # "" \/ rec.after2 = af, r, "idempotent")
       /\ Chk(rec.obs_raised = "", r, "snapshot_raised")
       /\ IF rec.obs_raised # "" THEN TRUE
          ELSE /\ (IF Hides(bf) THEN TRUE
                   ELSE /\ Chk(Obs_SameTextTimeline(rec), r, "text_timeline")
                        /\ (IF SpecAgreesWithIsd(rec) THEN TRUE ELSE Note(r, "isd_before_differs_from_spec_TextAt")))
               /\ Chk(Obs_All(rec, Obs_ColorOk), r, "configured_color")
               /\ Chk(Obs_All(rec, Obs_BgOk), r, "configured_bg_color")
               /\ Chk(Obs_All(rec, Obs_TaOk), r, "configured_text_align")

B == 16
VARIABLE i
TInit == i = 1 /\ phase = "trace" /\ doc = 0 /\ cfg = 0 /\ al = 0 /\ out = 0 /\ out2 = 0
TNext ==
  \/ /\ i <= Len(Recs)
     /\ (\A j \in i..Min2(i + B - 1, Len(Recs)) : CheckRec(j)) = TRUE       \* evaluated as an expression
     /\ i' = Min2(i + B, Len(Recs) + 1) /\ UNCHANGED vars
  \/ /\ i = Len(Recs) + 1 /\ PrintT(<<"DONE", Len(Recs)>>) /\ i' = i + 1 /\ UNCHANGED vars
=============================================================================
