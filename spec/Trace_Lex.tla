------------------------------- MODULE Trace_Lex -------------------------------
(* Judges what the attribute-value parsers of ttconv did with recorded strings, against Lex.tla.  ndjson records:

   kind "p":   g    grammar name (Lex!Grammars)              s   the string, as code points
               c    index into Lex!Contexts (1 when the grammar has no context)
               acc  1 the parser returned a value, 0 it rejected (ValueError / error reported and value ignored),
                    2 it raised something else
               v    the value projected to the shape documented in Lex.tla ([] when rejected)
               big  1 when the value does not fit 32-bit integers (it is then not transmitted)
   kind "ser": fams a list of families <<generic, name, quoted>>, s = what serialize_font_family wrote for it,
               acc / v = what parse_font_families made of s.

   Clauses (printed as <<"FAIL", record index, clause>>; the harness prefixes "lex_<grammar>_"):
     accept     the string is in the language and was rejected
     reject     the string is not in the language and was accepted
     value      accepted, with a value other than the one the grammar's semantics give
     crash      an exception other than the documented rejection escaped
     serialize  (ser) the text written does not denote the list of families under <font-families>
     roundtrip  (ser) parsing the text written does not give the list back
   <<"SPECBUG", index>> is printed when the two formulations of a grammar disagree on a recorded string: that is a
   fault of the specification and is reported as a machinery failure, never as a verdict.                          *)
EXTENDS Lex, Json, IOUtils, TLCExt, TLC

Recs == ndJsonDeserialize(IOEnv.TRACE_FILE)
VARIABLE i

Chk(cond, r, clause) == IF cond THEN TRUE ELSE PrintT(<<"FAIL", r, clause>>)

RECURSIVE CollapseFrom(_, _)
\* runs of LWSP inside an unquoted name become one SPACE (how many white-space characters separate the identifiers
\* of an unquoted name is not judged)
CollapseFrom(nm, k) == IF k > Len(nm) THEN <<>>
                       ELSE IF nm[k] \in LwspCh
                            THEN <<SPACE>> \o CollapseFrom(nm, RunEnd(nm, k, LwspCh))
                            ELSE <<nm[k]>> \o CollapseFrom(nm, k + 1)
SameFamily(ex, ob) == /\ ob[1] = ex[1]
                      /\ \/ ob[2] = ex[2]
                         \/ ex[3] = 0 /\ CollapseFrom(ob[2], 1) = CollapseFrom(ex[2], 1)
SameFamilies(ex, ob) == Len(ex) = Len(ob) /\ \A k \in 1..Len(ex) : SameFamily(ex[k], ob[k])

Unrepresentable(gm, v) == CASE gm = "time" -> v[2] = 0
                            [] gm = "length" -> v[2] = 0
                            [] gm = "position" -> v[2][2] = 0 \/ v[4][2] = 0
                            [] gm \in {"frate", "trate", "cellres", "fmult", "aspect", "dar"} -> v[1] = -1
                            [] OTHER -> FALSE
SameValue(gm, ex, rec) == IF Unrepresentable(gm, ex) THEN TRUE
                          ELSE IF rec.big = 1 THEN FALSE
                          ELSE IF gm = "font" THEN SameFamilies(ex, rec.v)
                          ELSE rec.v = ex

CheckParse(j, rec) ==
  LET ctx == Contexts[rec.c]
      ex == Parse(rec.g, rec.s, ctx)
  IN  /\ IF Accepts(rec.g, rec.s, ctx) = ex.ok THEN TRUE ELSE PrintT(<<"SPECBUG", j>>)
      /\ IF ~ex.j THEN TRUE
         ELSE /\ Chk(rec.acc # 2, j, "crash")
              /\ Chk(~(ex.ok /\ rec.acc = 0), j, "accept")
              /\ Chk(~(~ex.ok /\ rec.acc = 1), j, "reject")
              /\ IF ex.ok /\ rec.acc = 1 THEN Chk(SameValue(rec.g, ex.v, rec), j, "value") ELSE TRUE

CheckSer(j, rec) ==
  LET ex == ParseFont(rec.s) IN
  /\ Chk(ex.ok /\ ex.v = rec.fams, j, "serialize")
  /\ Chk(rec.acc = 1 /\ SameFamilies(rec.fams, rec.v), j, "roundtrip")

CheckRec(j) == LET rec == Recs[j] IN IF rec.kind = "p" THEN CheckParse(j, rec) ELSE CheckSer(j, rec)

B == 64
TInit == i = 1
TNext == \/ /\ i <= Len(Recs)
            /\ (\A j \in i..Min2(i + B - 1, Len(Recs)) : CheckRec(j)) = TRUE
            /\ i' = Min2(i + B, Len(Recs) + 1)
         \/ /\ i = Len(Recs) + 1 /\ PrintT(<<"DONE", Len(Recs)>>) /\ i' = i + 1
=============================================================================
