------------------------------- MODULE Trace_Lwsp -------------------------------
(* Validates what ttconv.isd leaves in a snapshot (ISD.from_model) of one line-building unit against
   Lwsp.tla.  One ndjson record per unit (a paragraph, or one rt / rp of a ruby container):

     id     case number (for the harness)
     items  the unit's inline content in the SOURCE document, flattened in document order, one integer
            per item:     c            (0 <= c < 2097152)  character with code point c, xml:space=default
                          2097152 + c                      character with code point c, xml:space=preserve
                          -1  br       -2  span/ruby/rb/rbc begins       -3  it ends
            (text inside rt/rtc/rp is not part of a paragraph's items; it is a record of its own)
     out    the same unit in the SNAPSHOT, flattened the same way but without boundaries: code points of
            the characters of its text nodes, and -1 for a br.  A line feed character is 10, a br is -1:
            they are different things.  A unit that is absent from the snapshot has out = <<>>.
     etext  number of empty text nodes left below the unit in the snapshot       (must be 0)
     espan  number of spans without children left below the unit in the snapshot (must be 0)
     err    1 iff ISD.from_model raised (nothing else is judged then)

   Records outside Lwsp!InDomain (a default-mode white-space character directly adjacent to a
   preserve-mode one) are skipped for the output clause and counted: <<"SKIPPED", n>>.
   Failing clauses print <<"FAIL", record index, detail, clause>>; <<"DONE", number of records>> at the end. *)
EXTENDS Lwsp, Json, IOUtils, TLCExt

Recs == ndJsonDeserialize(IOEnv.TRACE_FILE)
VARIABLES i, skipped
tvars == <<i, skipped>>

P21 == 2097152
Decode(x) == IF x = -1 THEN BR
             ELSE IF x = -2 THEN SO
             ELSE IF x = -3 THEN SC
             ELSE IF x >= P21 THEN Ch(x - P21, "preserve")
             ELSE Ch(x, "default")
Items(rec) == [j \in 1..Len(rec.items) |-> Decode(rec.items[j])]
Code(o) == IF o.k = "br" THEN -1 ELSE o.c
Codes(s) == [j \in 1..Len(s) |-> Code(s[j])]

Fail(r, x, clause) == PrintT(<<"FAIL", r, x, clause>>)
Chk(cond, r, x, clause) == IF cond THEN TRUE ELSE Fail(r, x, clause)

\* first position at which two sequences differ (0 = equal), reported as the detail of lwsp_output
RECURSIVE FirstDiff(_, _, _)
FirstDiff(a, b, j) == IF j > Len(a) /\ j > Len(b) THEN 0
                      ELSE IF j > Len(a) \/ j > Len(b) THEN j
                      ELSE IF a[j] # b[j] THEN j ELSE FirstDiff(a, b, j + 1)

CheckRec(j) ==
  LET rec == Recs[j] IN
  /\ Chk(rec.err = 0, j, 0, "lwsp_snapshot_raised")
  /\ IF rec.err # 0 THEN TRUE
     ELSE /\ Chk(rec.etext = 0, j, rec.etext, "lwsp_empty_text_left")
          /\ Chk(rec.espan = 0, j, rec.espan, "lwsp_childless_span_left")
          /\ IF ~InDomain(Items(rec)) THEN TRUE
             ELSE LET exp == Codes(Output(Items(rec))) IN
                  Chk(exp = rec.out, j, FirstDiff(exp, rec.out, 1), "lwsp_output")

B == 64
Min2(a, b) == IF a < b THEN a ELSE b
TInit == /\ i = 1 /\ skipped = 0
         /\ items = <<>> /\ pos = 1 /\ out = <<>> /\ pending = FALSE /\ atLineStart = TRUE
         /\ prevIsSpace = FALSE /\ prevMode = "none" /\ silent = FALSE /\ done = FALSE
TNext == \/ /\ i <= Len(Recs)
            /\ LET hi == Min2(i + B - 1, Len(Recs)) IN
               /\ (\A j \in i..hi : CheckRec(j)) = TRUE     \* "= TRUE": evaluated as an expression, not as an action
               /\ skipped' = skipped + Cardinality({j \in i..hi : Recs[j].err = 0 /\ ~InDomain(Items(Recs[j]))})
            /\ i' = Min2(i + B, Len(Recs) + 1) /\ UNCHANGED vars
         \/ /\ i = Len(Recs) + 1
            /\ PrintT(<<"SKIPPED", skipped>>) /\ PrintT(<<"DONE", Len(Recs)>>)
            /\ i' = i + 1 /\ UNCHANGED <<skipped>> /\ UNCHANGED vars
=============================================================================
