-------------------------------- MODULE Trace_Model --------------------------------
(* Trace validation for C15: every recorded API call on real ttconv.model objects must be a step the
   Model.tla contract admits, and the projected model must be WellFormed after every call.

   ndjson records (universe constants come from the generated MC module):
     kind "edges": S, steps   S = a state of the exhaustive model rebuilt on real objects; every step starts from S
     kind "hist":  S, steps   S = initial projection of a history; step k starts from the post state of step k-1
     step: op [op, a, b, cs, d, id, prop, tok], ok (TRUE iff the call returned without exception),
           same (TRUE iff the projection after the call equals the projection before), post (when ~same)
     Failure ids are record index * 1000 + step number.
   The projection S has the fields of Model!S plus the redundant link views first/lastc/next/prev/len
   (as returned by first_child/last_child/next_sibling/previous_sibling/len) and styles/steps/initials
   as sequences of <<property, token>>.

   Verdicts: <<"FAIL", record index, clause>> ; counts: <<"NOTE", record index, what>> for calls where the
   implementation is stricter or laxer than the contract without breaking the invariant.              *)
EXTENDS Model, Json, IOUtils, TLCExt

CONSTANTS TokValid,    \* TokValid[t] = TRUE iff catalogue value t is valid for its property (TTML2 value space)
          TokProp      \* TokProp[t] = the property catalogue value t belongs to

Recs == ndJsonDeserialize(IOEnv.TRACE_FILE)


Fail(r, clause) == PrintT(<<"FAIL", r, clause>>)
Note(r, what) == PrintT(<<"NOTE", r, what>>)
Chk(cond, r, clause) == IF cond THEN TRUE ELSE Fail(r, clause)

\* the redundant link views must agree with the child lists
ViewsAgree(St) ==
  \A e \in E : /\ St.first[e] = First(St, e) /\ St.lastc[e] = Last(St, e)
               /\ St.len[e] = Len(St.kids[e])
               \* the child list seen by iteration and by indexing (when recorded) is the one the sibling links give
               /\ ("iter" \in DOMAIN St => St.iter[e] = St.kids[e] /\ St.byidx[e] = St.kids[e])
               /\ (St.parent[e] # 0 /\ e \in Range(St.kids[St.parent[e]])) =>
                     (St.next[e] = NextSib(St, e) /\ St.prev[e] = PrevSib(St, e))
               /\ St.parent[e] = 0 => (St.next[e] = 0 /\ St.prev[e] = 0)

ValuesValid(St) ==
  /\ \A e \in E : /\ \A k \in 1..Len(St.styles[e]) : St.styles[e][k][2] >= 1 /\ TokValid[St.styles[e][k][2]]
                                                     /\ TokProp[St.styles[e][k][2]] = St.styles[e][k][1]
                  /\ \A k \in 1..Len(St.steps[e]) : St.steps[e][k][2] >= 1 /\ TokValid[St.steps[e][k][2]]
                                                     /\ TokProp[St.steps[e][k][2]] = St.steps[e][k][1]
  /\ \A d \in D : \A k \in 1..Len(St.initials[d]) : St.initials[d][k][2] >= 1 /\ TokValid[St.initials[d][k][2]]
                                                     /\ TokProp[St.initials[d][k][2]] = St.initials[d][k][1]

ValueOps == {"SetStyle", "AddStep", "PutInitial"}
SingleElementOps == {"PushChild", "Remove", "RemoveChild", "SetDoc", "SetRegion", "PutRegion", "RemoveRegion",
                     "SetBody", "SetStyle", "AddStep", "PutInitial"}

\* a value operation must be rejected when its value is not valid for the property (tok = 0 : value None = removal)
ValueGuard(St, o) ==
  CASE o.op = "SetStyle" -> o.tok = 0 \/ (Kind[o.a] # "text" /\ TokValid[o.tok] /\ TokProp[o.tok] = o.prop)
    [] o.op = "AddStep" -> o.tok # 0 /\ TokValid[o.tok] /\ TokProp[o.tok] = o.prop
    [] o.op = "PutInitial" -> o.tok = 0 \/ (TokValid[o.tok] /\ TokProp[o.tok] = o.prop)

StructOnly(St) == [parent |-> St.parent, kids |-> St.kids, owner |-> St.owner, regref |-> St.regref,
                   registry |-> St.registry, body |-> St.body]
ModelOp(o) == [op |-> o.op, a |-> o.a, b |-> o.b, cs |-> o.cs, d |-> o.d, id |-> o.id]

CheckStep(r, pre, o, ok, post) ==
  /\ LET why == WhyNot(post) IN Chk(why = "ok", r, "wellformed_" \o why)
  /\ Chk(ViewsAgree(post), r, "link_views_agree")
  /\ Chk(ValuesValid(post), r, "only_valid_values_stored")
  /\ IF o.op \in ValueOps
     THEN /\ Chk(StructOnly(post) = StructOnly(pre), r, "value_op_changed_structure")
          /\ IF ~ok THEN Chk(post = pre, r, "rejected_op_changed_model")
             ELSE IF ~ValueGuard(pre, o) THEN Fail(r, "invalid_value_accepted")
             ELSE TRUE
     ELSE LET g == Guard(StructOnly(pre), ModelOp(o)) IN
          IF ~ok
          THEN /\ IF o.op \in SingleElementOps THEN Chk(post = pre, r, "rejected_op_changed_model") ELSE TRUE
               /\ IF g THEN Note(r, "stricter_than_contract_" \o o.op) ELSE TRUE
          ELSE IF g
               \* C15 states well-formedness, not the exact effect of an accepted call: a different but well-formed
               \* outcome is counted (NOTE), never reported as a violation
               THEN /\ (IF Admits(StructOnly(pre), ModelOp(o), StructOnly(post)) THEN TRUE ELSE Note(r, "effect_differs_" \o o.op))
                    /\ Chk(post.styles = pre.styles /\ post.steps = pre.steps /\ post.initials = pre.initials, r, "structural_op_changed_values")
               ELSE Note(r, "laxer_than_contract_" \o o.op)

\* steps of one record: "edges" all start from rec.S ; "hist" threads the post state through
RECURSIVE CheckSteps(_, _, _, _, _)
CheckSteps(r, chained, pre, steps, k) ==
  IF k > Len(steps) THEN TRUE
  ELSE LET st   == steps[k]
           post == IF st.same THEN pre ELSE st.post
       IN  /\ CheckStep(r * 1000 + k, pre, st.op, st.ok, post)
           \* a history is judged up to and including its first ill-formed state: what follows a broken model is noise
           /\ IF chained /\ ~(WhyNot(post) = "ok" /\ ViewsAgree(post) /\ ValuesValid(post)) THEN TRUE
              ELSE CheckSteps(r, chained, IF chained THEN post ELSE pre, steps, k + 1)

CheckRec(r) ==
  LET rec == Recs[r] IN
  /\ LET why == WhyNot(rec.S) IN Chk(why = "ok" /\ ViewsAgree(rec.S), r * 1000, "built_state_not_wellformed_" \o why)
  /\ CheckSteps(r, rec.kind = "hist", rec.S, rec.steps, 1)

B == 16
Min2(a, b) == IF a < b THEN a ELSE b

VARIABLE i
tvars == <<i, S, last>>
TInit == i = 1 /\ S = <<>> /\ last = <<>>
TNext ==
  \/ /\ i <= Len(Recs)
     /\ (\A j \in i..Min2(i + B - 1, Len(Recs)) : CheckRec(j)) = TRUE       \* evaluated as an expression
     /\ i' = Min2(i + B, Len(Recs) + 1) /\ UNCHANGED <<S, last>>
  \/ /\ i = Len(Recs) + 1 /\ PrintT(<<"DONE", Len(Recs)>>) /\ i' = i + 1 /\ UNCHANGED <<S, last>>
=============================================================================
