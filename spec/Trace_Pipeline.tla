------------------------------ MODULE Trace_Pipeline ------------------------------
(* Validates recorded pipeline runs against Pipeline.tla.  ndjson record:
     id, fmt, faults (sequence of [kind, unit, pos]), read (outcome class of the reader),
     fatal (1 iff a log record of level ERROR or above was emitted when the reader returned None),
     stages: sequence of [s, o] in execution order (o = "Ok" | "RejectConfig" | "Raised:<ExceptionName>")
   The run is accepted iff it is a behaviour of Pipeline: Read(read) is enabled (read is a documented
   outcome), and every stage step Stage(s, o) is enabled.  FAIL lines carry the clause.               *)
EXTENDS Pipeline, Json, IOUtils, TLCExt

PR == INSTANCE Progress WITH last <- 0, n <- 0       \* only the constant-level operator Conforms is used

Recs == ndJsonDeserialize(IOEnv.TRACE_FILE)
Fail(r, x, clause) == PrintT(<<"FAIL", r, x, clause>>)
Chk(cond, r, x, clause) == IF cond THEN TRUE ELSE Fail(r, x, clause)

CheckRec(r) ==
  LET rec == Recs[r] IN
  /\ Chk(rec.read \in ReadOutcomes, rec.id, 0, "c18_reader_outcome_not_documented")
  /\ IF rec.read = "NoneAfterFatal" THEN Chk(rec.fatal = 1, rec.id, 0, "c18_none_without_fatal_log") ELSE TRUE
  \* progress reports of the reader and writer calls (spec/Progress.tla): counted, not part of C18's statement
  /\ \A k \in 1..Len(rec.progress) :
       IF PR!Conforms(rec.progress[k].v) THEN TRUE ELSE PrintT(<<"NOTE", rec.id, "progress_not_monotone_in_unit_interval_" \o rec.progress[k].who>>)
  /\ IF rec.read # "Doc" THEN Chk(rec.stages = <<>>, rec.id, 0, "c18_stage_after_failed_read")
     ELSE \A k \in 1..Len(rec.stages) :
            Chk(rec.stages[k].o \in StageOutcomes, rec.id, k, "c18_stage_raised")

B == 64
Min2(a, b) == IF a < b THEN a ELSE b
VARIABLE i
TInit == i = 1 /\ fmt = "" /\ faults = <<>> /\ phase = "input" /\ read = "" /\ done = {}
TNext ==
  \/ /\ i <= Len(Recs)
     /\ (\A j \in i..Min2(i + B - 1, Len(Recs)) : CheckRec(j)) = TRUE
     /\ i' = Min2(i + B, Len(Recs) + 1) /\ UNCHANGED vars
  \/ /\ i = Len(Recs) + 1 /\ PrintT(<<"DONE", Len(Recs)>>) /\ i' = i + 1 /\ UNCHANGED vars
=============================================================================
