--------------------------- MODULE Trace_SrtReader ---------------------------
(* Trace validation for C10: what ttconv.srt.reader.to_model returned for a recorded file must be what
   SrtReader.tla says the file means.  One ndjson record per file:

     id     index given by the harness
     lines  the file, lexed:  [blank, digits, tm, toks]  (see SrtReader.tla, "Lines")
     obs    [raised |-> "" | exception type name, none |-> 1 iff to_model returned None,
             ps |-> one entry per model.P in document order:
                    [bt, br, bw, bn, bd,      begin: Python type name, 1 iff numbers.Rational, whole seconds,
                                              fraction bn/bd (bd = 0: not a small rational, e.g. a binary float)
                     et, er, ew, en, ed,      end, likewise
                     items,                   flattened inline content [c, b, i, u, col]
                     extra]]                  number of inline nodes that are neither span, br nor text, or carry times
     fr     per frame rate [n, d, b, e, err]: begin / end of every p as written by ttconv.imsc.writer in "frames" format

   The file machine of the specification is folded over `lines`, the tag machine over the tokens of every cue,
   and every clause of the property is compared.  A failing clause prints <<"FAIL", record, cue, clause>>;
   a file outside the cue grammar prints <<"SKIP", record, reason>> and is not judged.                       *)
EXTENDS SrtReader, Json, IOUtils, TLCExt

Recs == ndJsonDeserialize(IOEnv.TRACE_FILE)

Fail(r, x, clause) == PrintT(<<"FAIL", r, x, clause>>)
Chk(cond, r, x, clause) == IF cond THEN TRUE ELSE Fail(r, x, clause)

Chars(items) == [j \in 1..Len(items) |-> items[j].c]
RationalType(tn, isr) == isr = 1               \* int and Fraction are exact rationals; float is not

CheckCue(r, j, cue, p) ==
  LET exp == RunTags(cue.toks) IN
  /\ Chk(RationalType(p.bt, p.br) /\ RationalType(p.et, p.er), r, j, "time_type_" \o p.bt \o "_" \o p.et)
  /\ Chk(ExactlyEqual(cue.begin, p.bw, p.bn, p.bd), r, j, "begin_exact")
  /\ Chk(ExactlyEqual(cue.end, p.ew, p.en, p.ed), r, j, "end_exact")
  /\ Chk(Chars(p.items) = Chars(exp.out), r, j, "text_and_line_breaks")
  /\ IF Chars(p.items) = Chars(exp.out) THEN Chk(p.items = exp.out, r, j, "char_styles") ELSE TRUE
  /\ Chk(p.extra = 0, r, j, "unexpected_inline_content")

CheckFrames(r, cues, fr) ==
  \A x \in 1..Len(fr) :
    LET e == fr[x] IN
    IF ~RateSupported(e.n, e.d) THEN Fail(r, x, "machinery_rate")
    ELSE /\ Chk(e.err = "", r, x, "imsc_writer_raised_" \o e.err)
         /\ IF e.err # "" \/ Len(e.b) # Len(cues) THEN Chk(e.err # "", r, x, "frames_p_count")
            ELSE \A j \in 1..Len(cues) :
                   /\ Chk(FrameOk(cues[j].begin, e.n, e.d, e.b[j]), r, j, "frames_begin")
                   /\ Chk(FrameOk(cues[j].end, e.n, e.d, e.e[j]), r, j, "frames_end")

CheckRec(r) ==
  LET rec == Recs[r]
      ff  == RunFile(rec.lines)
  IN  IF ff.bad # "" THEN PrintT(<<"SKIP", r, ff.bad>>)
      ELSE /\ Chk(rec.obs.raised = "", r, 0, "reader_raised_" \o rec.obs.raised)
           /\ Chk(rec.obs.none = 0, r, 0, "reader_rejected_file")
           /\ IF rec.obs.raised # "" \/ rec.obs.none = 1 THEN TRUE
              ELSE /\ Chk(Len(rec.obs.ps) = Len(ff.cues), r, 0, "cue_count")
                   /\ \A j \in 1..Len(ff.cues) :
                        IF j <= Len(rec.obs.ps) THEN CheckCue(r, j, ff.cues[j], rec.obs.ps[j]) ELSE TRUE
                   /\ IF Len(rec.obs.ps) = Len(ff.cues) THEN CheckFrames(r, ff.cues, rec.fr) ELSE TRUE

B == 32
Min2(a, b) == IF a < b THEN a ELSE b

VARIABLE i
tvars == <<i, fs, cl, hist, nb, done>>
TInit == i = 1 /\ Init
TNext ==
  \/ /\ i <= Len(Recs)
     /\ (\A j \in i..Min2(i + B - 1, Len(Recs)) : CheckRec(j)) = TRUE         \* evaluated as an expression
     /\ i' = Min2(i + B, Len(Recs) + 1) /\ UNCHANGED vars
  \/ /\ i = Len(Recs) + 1 /\ PrintT(<<"DONE", Len(Recs)>>) /\ i' = i + 1 /\ UNCHANGED vars
=============================================================================
