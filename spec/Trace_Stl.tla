------------------------------ MODULE Trace_Stl ------------------------------
(* Trace validation of ttconv.stl.reader against Stl.tla.  One ndjson record per STL file that was read:

   id      case number
   gsi     [dfc, dsc, cct, tcp (<<h,m,s,f>>), mnr]                 header written into the file
   cfg     [start ("none"|"tcp"|"tc"), start_tc, rows ("none"|"mnr"|"int"), rows_n, nofill, nopad, font (0 default, 1 custom)]
   blocks  the TTI blocks in file order: [sgn, sn, ebn, cs, tci, tco, vp, jc, cf, tf (bytes, trailing 8Fh removed)]
   raised  "" or the name of the exception the reader raised
   pair    0, or 1 for a record of the SN-magnitude family: it also carries raised2 / obs2, what the reader made of the
           same file with every subtitle number raised by 1000; such a record is judged by that comparison only
   obs     projection of the document the reader returned:
     subs  one entry per timed unit, in document order (a <p> with begin/end, or each timed <span> of a <p>):
           p (index of the <p>), begin = ow + on/od s, end = ew + en/ed s,
           g0 (for a member of a cumulative set: what separates its first character from the previous member, 3 = line break),
           cells <<[g, b, m, fg, bg, it, ul]>> one per non-space character: g = 0 none / 2 space(s) / 3 line break(s)
           before it, b/m = base code point / combining mark after canonical decomposition (0 = no mark, -2 = several),
           colours 0..7 teletext, 8 transparent, 9 other;
           align ("start"|"center"|"end"|other), disp ("before"|"after"|other),
           left/top/right/bot of the region in 1/1000 % of the root container
     area  [l, t, r, b] the active (safe) area the document declares, same unit
     fill, pad  1 if the body carries fillLineGap / linePadding; font 0 default stack, 1 the configured stack, 2 other

   The record is replayed through the TTI accumulator (RunBlocks = the fold of the Stl actions) and every emitted
   subtitle's text field through the pen machine (TfRun); the projection must match.  One line per failing clause:
       <<"FAIL", id, subtitle index (0 = whole file), clause, tag>>
   A record outside the domain of the property prints <<"SKIP", id, reason>> and is not judged.
   <<"STAT", id, k, characters, text judged, geometry judged>> lines count what was actually compared.       *)
EXTENDS Stl, Json, IOUtils, TLCExt

Recs == ndJsonDeserialize(IOEnv.TRACE_FILE)
VARIABLE i
tvars == <<i, hist, inExt, buf, nblk, subs, sets, open, last, done, pen, tmode>>

\* constants of Stl that the trace run does not use
TrNone == {}
TrGsi == [dfc |-> "STL25.01", dsc |-> "1", cct |-> "00", tcp |-> <<0, 0, 0, 0>>, mnr |-> 23]
TrCfg == [start |-> "none", start_tc |-> <<0, 0, 0, 0>>, rows |-> "none", rows_n |-> 23]

\* diagnosis only: what a 30000/1001 drop-frame reading of the labels would give
TDF == INSTANCE Timecode WITH NUM <- 30000, DEN <- 1001, FPS <- 30, DROP <- 2, HOURS <- 100, STARTS <- {0},
                              n <- 0, h <- 0, m <- 0, s <- 0, f <- 0

Fail(id, k, clause, tag) == PrintT(<<"FAIL", id, k, clause, tag>>)
Chk(cond, id, k, clause, tag) == IF cond THEN TRUE ELSE Fail(id, k, clause, tag)

-----------------------------------------------------------------------------
(* domain of the property: known DFC, valid labels, TCI <= TCO, diacritics followed by their letter *)
BlockInDomain(b, rate, cct) ==
  Kind(b, AllOn) \in {"ext", "terminal"} =>          \* skipped blocks may contain anything
    /\ ValidTc(rate, b.tci) /\ ValidTc(rate, b.tco)
    /\ Frames(rate, b.tci) <= Frames(rate, b.tco)
    /\ DiaOk(UpToFiller(b.tf), 1, cct)
InDomain(rec) ==
  /\ DfcKnown(rec.gsi.dfc)
  /\ rec.gsi.cct \in {"00", "01", "02", "03", "04"}
  /\ rec.gsi.dsc \in {"0", "1", "2", " "}
  /\ LET rate == Fps(rec.gsi.dfc) IN
     /\ rec.cfg.start = "tcp" => ValidTc(rate, rec.gsi.tcp)
     /\ rec.cfg.start = "tc" => ValidTc(rate, rec.cfg.start_tc)
     /\ \A k \in 1..Len(rec.blocks) : BlockInDomain(rec.blocks[k], rate, rec.gsi.cct)
  /\ SnWellFormed(rec.blocks)

-----------------------------------------------------------------------------
(* order of the document: subtitles are grouped by subtitle group number, groups in order of first appearance *)
RECURSIVE SgnOrder(_, _, _)
SgnOrder(ss, k, acc) == IF k > Len(ss) THEN acc
                        ELSE SgnOrder(ss, k + 1, IF \E q \in 1..Len(acc) : acc[q] = ss[k].sgn THEN acc ELSE Append(acc, ss[k].sgn))
RECURSIVE CatGroups(_, _, _)
CatGroups(ss, order, q) == IF q > Len(order) THEN <<>>
                           ELSE SelectSeq(ss, LAMBDA x : x.sgn = order[q]) \o CatGroups(ss, order, q + 1)
BySgn(ss) == CatGroups(ss, SgnOrder(ss, 1, <<>>), 1)

-----------------------------------------------------------------------------
(* times: observed W + p/q seconds against frame count d at NUM/DEN *)
OffsetEq(W, p, q, rate, d) ==
  LET o == Offset(rate, d) IN W = o[1] /\ q > 0 /\ rate[1] % q = 0 /\ p * (rate[1] \div q) = o[2]
OffsetEqDf(W, p, q, d) ==
  LET o == TDF!OffsetOf(d) IN W = o[1] /\ q > 0 /\ 30000 % q = 0 /\ p * (30000 \div q) = o[2]
DfFrames(tc) == TDF!ToFrames(tc[1], tc[2], tc[3], tc[4])
DfStart(rec) == CASE rec.cfg.start = "none" -> 0 [] rec.cfg.start = "tcp" -> DfFrames(rec.gsi.tcp)
                  [] rec.cfg.start = "tc" -> DfFrames(rec.cfg.start_tc)
\* tag of a time divergence: is the observation what a 29.97 drop-frame reading of an STL30.01 file gives ?
TimeTag(rec, W, p, q, tc) ==
  IF rec.gsi.dfc = "STL30.01" /\ DfFrames(tc) - DfStart(rec) >= 0 /\ OffsetEqDf(W, p, q, DfFrames(tc) - DfStart(rec))
  THEN "as_30000_1001_drop_frame" ELSE "other"

\* number of subtitles a 29.97 drop-frame reading keeps (it orders the labels differently around dropped labels)
DfCount(rec) == Cardinality({q \in 1..Len(rec.blocks) :
                    /\ Kind(rec.blocks[q], AllOn) = "terminal"
                    /\ DfFrames(rec.blocks[q].tci) - DfStart(rec) >= 0
                    /\ DfFrames(rec.blocks[q].tco) >= DfFrames(rec.blocks[q].tci)})

-----------------------------------------------------------------------------
(* text *)
SpaceOk(eg, og) == CASE eg = 0 -> og \in {0, 3}
                     [] eg = 1 -> og \in {0, 2, 3}
                     [] eg = 2 -> og \in {2, 3}
                     [] OTHER -> TRUE                          \* line breaks are judged by the clause "breaks"
CharOk(e, o) == (e.base = -1 \/ e.base = o.b) /\ (e.mark = -1 \/ e.mark = o.m)
BgOk(e, o) == ~e.bgj \/ e.bg = o.bg

\* the terminal block of expected subtitle number k (in emission order) -- for tags only
CheckText(id, k, sub, ec, oc) ==
  LET cl == IF sub.n > 1 THEN "extension_concatenated" ELSE "text" IN
  /\ Chk(Len(ec) = Len(oc), id, k, cl, "character_count")
  /\ IF Len(ec) # Len(oc) THEN TRUE
     ELSE /\ Chk(\A c \in 1..Len(ec) : CharOk(ec[c], oc[c]), id, k, cl, "character")
          /\ Chk(\A c \in 1..Len(ec) : SpaceOk(ec[c].gap, oc[c].g), id, k, cl, "space")
          /\ Chk(\A c \in 1..Len(ec) : (ec[c].gap = 3) = (oc[c].g = 3), id, k, "breaks", "")
          /\ Chk(\A c \in 1..Len(ec) : ec[c].fg = oc[c].fg, id, k, "fg", "")
          /\ Chk(\A c \in 1..Len(ec) : BgOk(ec[c], oc[c]), id, k, "bg", "")
          /\ Chk(\A c \in 1..Len(ec) : ec[c].it = (oc[c].it = 1), id, k, "italic", "")
          /\ Chk(\A c \in 1..Len(ec) : ec[c].ul = (oc[c].ul = 1), id, k, "underline", "")

-----------------------------------------------------------------------------
(* region: the row grid divides the declared safe area into env.rows rows; row r spans
   [t + (r-1)/rows * H, t + r/rows * H].  A top-anchored region starts at the top of row VP, a bottom-anchored
   region ends at the bottom of the last occupied row.  Which of the two the reader chooses is its business.   *)
Abs(x) == IF x < 0 THEN -x ELSE x
TopOk(o, area, rows, vp)     == Abs(o.top * rows - (area.t * rows + (vp - 1) * (area.b - area.t))) <= 2 * rows
BottomOk(o, area, rows, lastrow) == Abs(o.bot * rows - (area.t * rows + lastrow * (area.b - area.t))) <= 2 * rows
InsideOk(o, area) == /\ o.left >= area.l - 2 /\ o.top >= area.t - 2 /\ o.right <= area.r + 2 /\ o.bot <= area.b + 2
                     /\ o.left < o.right /\ o.top < o.bot

CheckSub(rec, env, k, sub, o, firstInP) ==
  LET id   == rec.id
      mode == [tt |-> env.tt, cct |-> env.cct]
      run  == TfRun(sub.tf, mode)
      ec   == run.out
      geo  == /\ firstInP /\ sub.vp \in 1..env.rows /\ RowsRegular(ec, run.row)
              /\ sub.vp + LastRow(ec) <= env.rows
      tci  == rec.blocks[sub.blk].tci
      tco  == rec.blocks[sub.blk].tco
  IN
  /\ PrintT(<<"STAT", id, k, Len(ec), IF Len(ec) = Len(o.cells) THEN 1 ELSE 0, IF geo THEN 1 ELSE 0>>)
  /\ Chk(OffsetEq(o.ow, o.on, o.od, env.rate, sub.b), id, k, "time_in", TimeTag(rec, o.ow, o.on, o.od, tci))
  /\ Chk(OffsetEq(o.ew, o.en, o.ed, env.rate, sub.e), id, k, "time_out", TimeTag(rec, o.ew, o.en, o.ed, tco))
  /\ CheckText(id, k, sub, ec, o.cells)
  /\ IF firstInP THEN Chk(o.align \in Align(sub.jc), id, k, "align", o.align) ELSE TRUE
  /\ IF ~geo THEN TRUE
     ELSE /\ Chk(\/ o.disp = "before" /\ TopOk(o, rec.obs.area, env.rows, sub.vp)
                 \/ o.disp = "after" /\ (sub.cs # 0 \/ BottomOk(o, rec.obs.area, env.rows, sub.vp + LastRow(ec))),
                 id, k, "anchor", o.disp)
          /\ Chk(InsideOk(o, rec.obs.area), id, k, "safe_area", o.disp)

\* expected subtitles carry the index of their terminal block (for diagnosis): recomputed here by position
RECURSIVE TerminalIdx(_, _, _, _, _)
TerminalIdx(bs, env, k, q, acc) ==           \* indices of the blocks that emit, in order
  IF q > Len(bs) THEN acc
  ELSE TerminalIdx(bs, env, k, q + 1,
                   IF Kind(bs[q], AllOn) = "terminal" /\ Frames(env.rate, bs[q].tci) - env.start >= 0
                   THEN Append(acc, q) ELSE acc)

CheckRec(j) ==
  LET rec == Recs[j]
      id  == rec.id
  IN
  \* whatever the file, the outcome does not depend on the magnitude of the subtitle numbers: obs2 is the projection of
  \* the same file with every SN raised by 1000 (the accumulator of Stl.tla reads SN only to compare it)
  IF rec.pair = 1 THEN Chk(rec.raised = rec.raised2 /\ rec.obs.subs = rec.obs2.subs, id, 0, "sn_magnitude_independent",
                           IF Len(rec.obs.subs) # Len(rec.obs2.subs) THEN "subtitle_count_differs" ELSE "content_differs")
  ELSE IF ~InDomain(rec) THEN PrintT(<<"SKIP", id, "out_of_domain">>)
  ELSE IF rec.raised # "" THEN Fail(id, 0, "reader_raised", rec.raised)
  ELSE
  LET env  == Env(rec.gsi, rec.cfg)
      S    == RunBlocks(rec.blocks, env, AllOn)
      tix  == TerminalIdx(rec.blocks, env, 0, 1, <<>>)
      raw  == [k \in 1..Len(S.subs) |-> [b |-> S.subs[k].b, e |-> S.subs[k].e, tf |-> S.subs[k].tf, n |-> S.subs[k].n,
                                         jc |-> S.subs[k].jc, vp |-> S.subs[k].vp, cs |-> S.subs[k].cs,
                                         sgn |-> S.subs[k].sgn, sn |-> S.subs[k].sn, set |-> S.subs[k].set,
                                         blk |-> tix[k]]]
      exp  == BySgn(raw)
      obs  == rec.obs.subs
      n    == Len(obs)
      cnt(opt) == Len(RunBlocks(rec.blocks, env, opt).subs)
  IN
  /\ Chk(rec.obs.fill = 1 - rec.cfg.nofill, id, 0, "cfg_fill_line_gap", "")
  /\ Chk(rec.obs.pad = 1 - rec.cfg.nopad, id, 0, "cfg_line_padding", "")
  /\ Chk(rec.obs.font = rec.cfg.font, id, 0, "cfg_font_stack", "")
  /\ IF n # Len(exp)
     THEN IF rec.gsi.dfc = "STL30.01" /\ n = DfCount(rec) THEN Fail(id, 0, "subtitle_count", "as_30000_1001_drop_frame")
          ELSE IF n = cnt([AllOn EXCEPT !.comments = FALSE]) THEN Fail(id, 0, "comment_skipped", "comment_read_as_subtitle")
          ELSE IF n = cnt([AllOn EXCEPT !.user = FALSE]) THEN Fail(id, 0, "userdata_skipped", "user_data_read_as_text")
          ELSE IF n = cnt([AllOn EXCEPT !.drop = FALSE]) THEN Fail(id, 0, "dropped_before_start", "early_subtitle_kept")
          ELSE Fail(id, 0, "subtitle_count", IF n < Len(exp) THEN "fewer" ELSE "more")
     ELSE /\ \A k \in 1..n :
               CheckSub(rec, env, k, exp[k], obs[k], k = 1 \/ obs[k].p # obs[k - 1].p)
          \* cumulative sets: the members of one set, and only they, are presented together (one <p>)
          /\ \A k \in 2..n :
               /\ Chk((obs[k].p = obs[k - 1].p) = (exp[k].set # 0 /\ exp[k].set = exp[k - 1].set), id, k, "cumulative",
                       IF obs[k].p = obs[k - 1].p THEN "joined" ELSE "split")
               \* members of a set sit on their own rows (VP): text accumulates row by row, not on one line
               /\ IF obs[k].p = obs[k - 1].p /\ exp[k].set # 0 /\ exp[k].set = exp[k - 1].set /\ exp[k].vp # exp[k - 1].vp
                     /\ obs[k].cells # <<>> /\ obs[k - 1].cells # <<>>
                  THEN Chk(obs[k].g0 = 3, id, k, "cumulative", "rows_not_separated")
                  ELSE TRUE

\* records are consumed in batches of B per step
B == 32
Min2(a, b) == IF a < b THEN a ELSE b
TInit == i = 1 /\ IdleTti /\ done = <<>> /\ tmode = [tt |-> TRUE, cct |-> "00"] /\ pen = InitPen(tmode)
TNext == \/ /\ i <= Len(Recs)
            /\ (\A j \in i..Min2(i + B - 1, Len(Recs)) : CheckRec(j)) = TRUE
            /\ i' = Min2(i + B, Len(Recs) + 1) /\ UNCHANGED vars
         \/ /\ i = Len(Recs) + 1 /\ PrintT(<<"DONE", Len(Recs)>>) /\ i' = i + 1 /\ UNCHANGED vars
=============================================================================
