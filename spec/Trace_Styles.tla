------------------------------- MODULE Trace_Styles -------------------------------
(* Validates recorded style values of real ISD snapshots against Styles.tla (property C03).

   ndjson record (one per document):
     id, doc    the styled document of Styles.tla (Ttml.tla fields n, kind, parent, b, e, nr, rb, re +
                sty, san, rsty, rsan, ini, cell, px)
     times      query ticks
     obs[j]     the elements of ISD.from_model(doc, times[j]) that carry an id: sequence of
                [R (region index, 0 = default region), k (node index, 0 = the region itself),
                 st = sequence of [p, v]: get_style(p) of every style the element carries, in observed form]
     focus      the properties to judge (<<>> = every applicable one)
   WHICH elements appear is property C01 and which properties they carry is C13; here the VALUES of the
   elements that do appear are judged, element by element, property by property:
     c03_computed_value            get_style(p) is not Comp(doc, R, k, p, t) (lengths within TOL / SCALE)
     c03_applicable_value_present  an applicable property has no value at all
   Failing clauses print <<"FAIL", id, tick, R, k, property, clause, expected value>>; values outside the
   property's domain (Styles!PositionContested) print <<"SKIP", ...>> and are counted.                *)
EXTENDS Styles, Json, IOUtils, TLCExt

Recs == ndJsonDeserialize(IOEnv.TRACE_FILE)
Range(sq) == {sq[j] : j \in 1..Len(sq)}

CheckEl(rec, t, el) ==
  LET cx     == [doc |-> rec.doc, R |-> el.R, t |-> t]
      app    == Applicable(KindOf(cx, el.k))
      judged == IF rec.focus = <<>> THEN app ELSE app \cap Range(rec.focus)
      seen   == {el.st[j].p : j \in 1..Len(el.st)}
  IN  /\ \A j \in 1..Len(el.st) :
           LET p == el.st[j].p IN
           IF p \notin judged THEN TRUE
           ELSE IF p \in {"Origin", "Position"} /\ PositionContested(cx, el.k) THEN PrintT(<<"SKIP", rec.id, t, el.R, el.k, p>>)
           ELSE LET c == Comp(cx, el.k, p) IN
                IF ValEq(c, el.st[j].v) THEN TRUE
                ELSE PrintT(<<"FAIL", rec.id, t, el.R, el.k, p, "c03_computed_value", Canon(c)>>)
      /\ \A p \in judged \ seen : PrintT(<<"FAIL", rec.id, t, el.R, el.k, p, "c03_applicable_value_present", NoVal>>)

CheckRec(r) ==
  LET rec == Recs[r] IN
  \A j \in 1..Len(rec.times) : \A q \in 1..Len(rec.obs[j]) : CheckEl(rec, rec.times[j], rec.obs[j][q])

B == 16
Min2(a, b) == IF a < b THEN a ELSE b
VARIABLE i
TInit == i = 1
TNext ==
  \/ /\ i <= Len(Recs)
     /\ (\A j \in i..Min2(i + B - 1, Len(Recs)) : CheckRec(j)) = TRUE
     /\ i' = Min2(i + B, Len(Recs) + 1)
  \/ /\ i = Len(Recs) + 1 /\ PrintT(<<"DONE", Len(Recs)>>) /\ i' = i + 1
=============================================================================
