------------------------------ MODULE Trace_Timecode ------------------------------
(* Trace validation of ttconv.time_code against the odometer of Timecode.tla.  One TLC run per frame
   rate (constants written literally by the harness).  The trace is ndjson, one record per chunk.

   kind "lab": a window of consecutive frame counts n0 .. n0+len-1.  The trace spec *walks the
     odometer*: it enters the window at the closed form FromFrames(n0) (which the exhaustive model
     ties to the odometer) and then takes one Tick per frame; every recorded observation of frame
     n0+k is compared with the odometer state <<n, h, m, s, f>> reached by those Ticks:
       lab[k]   packed label HHMMSSFF of from_frames(n0+k)              (packing: all fields < 100)
       tf[k]    to_frames() of that label
       pa[k]    packed label obtained by parse(str(label))
       sep[k]   1 if str(label) uses ';' before the frames, 0 if ':', 2 anything else
       fs[k]    packed label of from_seconds(exact boundary (n0+k)*DEN/NUM)
       fm[k]    packed label of from_seconds(boundary + half a frame)
       ff[k]    the same with the argument given as a float
       fb[k]    packed label of from_seconds(float(boundary)) when a float holds the boundary exactly, else -1
       af[k]    packed label after add_frames(1) on the label of frame n0+k   (must be the next Tick)
       ow[k], on[k], od[k]   to_temporal_offset() = ow + on/od (lowest terms)
   kind "add":  n0, d, res : label(n0).add_frames(d) -> packed res   (n single additions = one of d)
   kind "bad":  a value that could not be packed (field outside 0..99); always a failure
   kind "ms" :  id, W, p, q, exact(1/0), lo, hi, h, m, s, msf : ClockTime.from_seconds result fields
   kind "mono": id, T1, T2 : results at two consecutive grid points (must be non-decreasing)

   Every failing clause prints <<"FAIL", record index, frame or id, clause>>; the verdict is total
   (a failing clause never blocks the walk), and <<"DONE", Len>> is printed when all records have
   been consumed.                                                                                  *)
EXTENDS Timecode, Json, IOUtils, TLCExt

Recs == ndJsonDeserialize(IOEnv.TRACE_FILE)

VARIABLES i, k
tvars == <<i, k, n, h, m, s, f>>

Unpack(p) == <<p \div 1000000, (p \div 10000) % 100, (p \div 100) % 100, p % 100>>
Fail(r, x, clause) == PrintT(<<"FAIL", r, x, clause>>)
\* NB: inside an action TLC explores both sides of a disjunction, so "cond \/ Fail" would always print;
\* checks are therefore written with IF-THEN-ELSE.
Chk(cond, r, x, clause) == IF cond THEN TRUE ELSE Fail(r, x, clause)

\* observations of frame nn whose odometer label is lbl, and whose successor label is nxt
CheckObs(ri, rec, kk, nn, lbl) ==
  LET got == Unpack(rec.lab[kk])
      nxt == Succ(lbl[1], lbl[2], lbl[3], lbl[4])
  IN  /\ Chk(got = lbl, ri, nn, "from_frames")
      /\ Chk(ValidLabel(got[1], got[2], got[3], got[4]), ri, nn, "valid_label")
      /\ Chk(rec.tf[kk] = nn, ri, nn, "to_frames_inverse")
      /\ Chk(rec.pa[kk] = rec.lab[kk], ri, nn, "parse_print")
      /\ Chk(rec.sep[kk] = (IF DROP > 0 THEN 1 ELSE 0), ri, nn, "print_separator")
      /\ Chk(Unpack(rec.fs[kk]) = lbl, ri, nn, "from_seconds_boundary")
      /\ Chk(Unpack(rec.fm[kk]) = lbl, ri, nn, "from_seconds_midframe")
      /\ Chk(Unpack(rec.ff[kk]) = lbl, ri, nn, "from_seconds_float_midframe")
      /\ Chk(rec.fb[kk] = -1 \/ Unpack(rec.fb[kk]) = lbl, ri, nn, "from_seconds_float_boundary")
      /\ Chk(Unpack(rec.af[kk]) = nxt, ri, nn, "add_one_frame_is_tick")
      \* wo = 1 iff the rational offset read from ONE object before and after it is advanced by a frame is nn / rate and
      \* (nn + 1) / rate (exact comparison of rationals, done where the values are)
      /\ Chk(rec.wo[kk] = 1, ri, nn, "offset_of_an_advanced_time_code")
      /\ Chk(IF kk = 1 THEN TRUE ELSE LexLess(Unpack(rec.lab[kk - 1]), got), ri, nn, "strictly_increasing")
      /\ LET o == OffsetOf(nn)
         IN  Chk(/\ rec.ow[kk] = o[1]
                 /\ rec.od[kk] > 0 /\ NUM % rec.od[kk] = 0
                 /\ rec.on[kk] * (NUM \div rec.od[kk]) = o[2], ri, nn, "offset_exact")

Rec == Recs[i]

EnterChunk ==
  /\ i <= Len(Recs) /\ Rec.kind = "lab" /\ k = 0
  /\ LET l0 == FromFrames(Rec.n0)
     IN  /\ n' = Rec.n0 /\ h' = l0[1] /\ m' = l0[2] /\ s' = l0[3] /\ f' = l0[4]
         /\ CheckObs(i, Rec, 1, Rec.n0, l0)
  /\ k' = 1 /\ i' = i

WalkChunk ==
  /\ i <= Len(Recs) /\ Rec.kind = "lab" /\ k > 0 /\ k < Len(Rec.lab)
  /\ Tick
  /\ CheckObs(i, Rec, k + 1, n', <<h', m', s', f'>>)
  /\ k' = k + 1 /\ i' = i

LeaveChunk ==
  /\ i <= Len(Recs) /\ Rec.kind = "lab" /\ k = Len(Rec.lab)
  /\ i' = i + 1 /\ k' = 0 /\ UNCHANGED vars

Other ==
  /\ i <= Len(Recs) /\ Rec.kind # "lab"
  /\ CASE Rec.kind = "add" ->
            Chk(Unpack(Rec.res) = FromFrames(Rec.n0 + Rec.d), i, Rec.n0, "add_n_frames")
       [] Rec.kind = "wf" ->
            \* begin/end written by the IMSC writer for a time exactly on frame boundary n0: that frame, in both frame syntaxes
            /\ (IF Rec.fr = -2 THEN TRUE ELSE Chk(Rec.fr = Rec.n0, i, Rec.n0, "written_frame_count"))
            /\ (IF Rec.res = -2 THEN TRUE
                ELSE /\ Chk(Rec.res # -1 /\ Unpack(Rec.res) = FromFrames(Rec.n0), i, Rec.n0, "written_frame_label")
                     /\ Chk(Rec.sep = (IF DROP > 0 THEN 1 ELSE 0), i, Rec.n0, "written_label_separator"))
       [] Rec.kind = "bad" -> Fail(i, Rec.n0, "unpackable_" \o Rec.what)
       [] Rec.kind = "ms" ->
            LET T == ClockMs(Rec.h, Rec.m, Rec.s, Rec.msf) IN
            /\ Chk(ClockFieldsOk(Rec.h, Rec.m, Rec.s, Rec.msf), i, Rec.id, "clock_fields_in_range")
            /\ Chk(Rec.rt = 1, i, Rec.id, "clock_parse_print")
            /\ IF Rec.exact = 1
               THEN Chk(NearestMs(T, Rec.W, Rec.p, Rec.q), i, Rec.id, "nearest_ms")
               ELSE Chk(NearestMsBracket(T, Rec.W, Rec.lo, Rec.hi), i, Rec.id, "nearest_ms_bracket")
       [] Rec.kind = "mono" -> Chk(Rec.T1 <= Rec.T2, i, Rec.id, "ms_monotone")
       [] OTHER -> Fail(i, 0, "unknown_record_kind")
  /\ i' = i + 1 /\ k' = 0 /\ UNCHANGED vars

Finish ==
  /\ i = Len(Recs) + 1
  /\ PrintT(<<"DONE", Len(Recs)>>)
  /\ i' = i + 1 /\ UNCHANGED <<k, n, h, m, s, f>>

TInit == i = 1 /\ k = 0 /\ n = 0 /\ h = 0 /\ m = 0 /\ s = 0 /\ f = 0
TNext == EnterChunk \/ WalkChunk \/ LeaveChunk \/ Other \/ Finish
TSpec == TInit /\ [][TNext]_tvars

\* the odometer invariants are evaluated on every state of the walk
TraceFieldsInRange == k > 0 => ValidLabel(h, m, s, f)
TraceToFrames      == k > 0 => ToFrames(h, m, s, f) = n
=============================================================================
