-------------------------------- MODULE Trace_Ttml --------------------------------
(* Validates recorded ISD snapshots of real documents against Ttml.tla (C01), the recorded significant
   times against the observed timeline (C02) and the ISD shape rules on every recorded snapshot (C13).

   ndjson record (one per document):
     id, doc (the abstract document of Ttml.tla), times (grid of query ticks, increasing),
     obs[j]  = projection of ISD.from_model(doc, times[j]): sequence of regions in iteration order
               [rid, leaves, containers, digest]   (+ tree, nbody, nchildren when shape = 1)
     sig     = ISD.significant_times(doc) in ticks (sigok = 1 iff all of them are whole ticks)
     seqt, seqd = times and per-region digests of ISD.generate_isd_sequence(doc)
     params, srcparams = document parameters of every snapshot / of the source (tokens)
     props: which clause families to evaluate: "c01", "c02", "c13"
   Failing clauses print <<"FAIL", id, tick or 0, clause>>.                                        *)
EXTENDS Ttml, Json, IOUtils, TLCExt

CONSTANT Families          \* subset of {"c01", "c02", "c13"} evaluated in this run

Recs == ndJsonDeserialize(IOEnv.TRACE_FILE)

Fail(r, x, clause) == PrintT(<<"FAIL", r, x, clause>>)
Chk(cond, r, x, clause) == IF cond THEN TRUE ELSE Fail(r, x, clause)
Range(sq) == {sq[k] : k \in 1..Len(sq)}

-----------------------------------------------------------------------------
(* C01: observed snapshot = Snapshot(doc, t) *)

MayPaint(rec, R) == IF "rpaint" \in DOMAIN rec THEN rec.rpaint[R + 1] = 1 ELSE TRUE

C01At(rec, j) ==
  LET t    == rec.times[j]
      snap == Snapshot(rec.doc, t)
      ob   == rec.obs[j]
      rids == [k \in 1..Len(ob) |-> ob[k].rid]
      \* a region without content that cannot paint a background presents nothing: listing it or not is immaterial
      must == {R \in DOMAIN snap : snap[R].leaves # <<>> \/ MayPaint(rec, R)}
  IN  /\ Chk(Range(rids) \subseteq DOMAIN snap /\ must \subseteq Range(rids) /\ Len(ob) = Cardinality(Range(rids)),
             rec.id, t, "c01_regions_shown")
      /\ Chk(\A a, b \in 1..Len(ob) : a < b => rids[a] < rids[b], rec.id, t, "c01_region_order")
      /\ \A k \in 1..Len(ob) :
           IF ob[k].rid \notin DOMAIN snap THEN TRUE
           ELSE /\ Chk(ob[k].leaves = snap[ob[k].rid].leaves, rec.id, t, "c01_leaves")
                /\ Chk(Range(ob[k].containers) = snap[ob[k].rid].containers, rec.id, t, "c01_containers")

-----------------------------------------------------------------------------
(* C02: the observed timeline changes only at the reported significant times *)

\* index of the greatest significant time <= t, 0 if none
SigIndex(sig, t) == Cardinality({k \in 1..Len(sig) : sig[k] <= t})
\* index in times of tick x (x is in times by construction of the grid)
TimeIndex(times, x) == CHOOSE j \in 1..Len(times) : times[j] = x
Strip(ob) == [k \in 1..Len(ob) |-> [rid |-> ob[k].rid, leaves |-> ob[k].leaves, containers |-> ob[k].containers, digest |-> ob[k].digest]]
Visible(ob) == \E k \in 1..Len(ob) : ob[k].leaves # <<>>
\* rendering equality: regions without content that paint nothing are ignored; the harness has already marked them

C02(rec) ==
  LET sig == rec.sig times == rec.times IN
  /\ Chk(rec.sigok = 1, rec.id, 0, "c02_sig_times_on_grid")
  /\ Chk(\A k \in 1..(Len(sig) - 1) : sig[k] < sig[k + 1], rec.id, 0, "c02_strictly_increasing")
  /\ IF rec.sigok # 1 THEN TRUE ELSE
     /\ \A j \in 1..Len(times) :
          LET si == SigIndex(sig, times[j]) IN
          IF si = 0 THEN Chk(~Visible(rec.obs[j]), rec.id, times[j], "c02_content_before_first_sig_time")
          ELSE IF sig[si] \notin Range(times) THEN TRUE
          ELSE IF Strip(rec.obs[j]) = Strip(rec.obs[TimeIndex(times, sig[si])]) THEN TRUE
          ELSE \* a change that the reported times do not announce.  rec.own (from the document alone) lists the boundaries of
               \* animation steps resolved against the carrying element's OWN interval where that differs from the resolution
               \* against its parent's: if the snapshot is the one taken at the latest of those - i.e. the change is exactly
               \* such a boundary - the case has the shape of the recorded finding and is named after it; any other
               \* unannounced change is not.
               LET own == IF "own" \in DOMAIN rec THEN {x \in Range(rec.own) : sig[si] < x /\ x <= times[j]} ELSE {}
                   last == IF own = {} THEN 0 ELSE CHOOSE x \in own : \A y \in own : y <= x
               IN  IF own # {} /\ (last \notin Range(times) \/ Strip(rec.obs[j]) = Strip(rec.obs[TimeIndex(times, last)]))
                   THEN Fail(rec.id, times[j], "c02_change_at_step_boundary_resolved_against_own_interval")
                   ELSE Fail(rec.id, times[j], "c02_change_between_sig_times")
     /\ Chk(rec.seqt = sig, rec.id, 0, "c02_sequence_times")
     /\ \A k \in 1..Len(rec.seqt) :
          IF k > Len(sig) \/ sig[k] \notin Range(times) THEN TRUE
          ELSE LET painting == SelectSeq(rec.obs[TimeIndex(times, sig[k])], LAMBDA rg : rg.paints = 1) IN
               \* compared as renderings: regions without content that paint nothing are ignored (the sequence is
               \* generated through the significant-times cache, which may omit them; see C14)
               Chk(rec.seqd[k] = [q \in 1..Len(painting) |-> painting[q].digest],
                   rec.id, sig[k], "c02_sequence_is_snapshots_at_sig_times")

-----------------------------------------------------------------------------
(* C13: the documented shape of an ISD, on every recorded snapshot *)

ContentKinds == {"body", "div", "p", "span", "br", "text", "ruby", "rb", "rt", "rp", "rbc", "rtc"}
AllowedKid(pk, ck) ==
  CASE pk = "region" -> ck = "body"  [] pk = "body" -> ck = "div"  [] pk = "div" -> ck \in {"div", "p"}
    [] pk = "p" -> ck \in {"span", "br", "ruby"}  [] pk = "span" -> ck \in {"span", "br", "text"}
    [] pk \in {"rb", "rt", "rp"} -> ck = "span"  [] pk = "rbc" -> ck = "rb"  [] pk = "rtc" -> ck \in {"rt", "rp"}
    [] pk = "ruby" -> ck \in {"rb", "rt", "rp", "rbc", "rtc"}  [] OTHER -> FALSE

\* applicable style sets (ttconv.model._applicableStyles, doc/isd.md) as reviewed constants
AppBodyDiv == {"BackgroundColor", "Display", "Opacity", "Visibility"}
AppP == {"BackgroundColor", "Direction", "Display", "FillLineGap", "FontFamily", "FontSize", "FontStyle", "FontWeight",
         "LineHeight", "LinePadding", "MultiRowAlign", "Opacity", "RubyReserve", "Shear", "TextAlign", "UnicodeBidi", "Visibility"}
AppSpan == {"BackgroundColor", "Color", "Direction", "Display", "FontFamily", "FontSize", "FontStyle", "FontWeight", "Opacity",
            "TextCombine", "TextDecoration", "TextEmphasis", "TextOutline", "TextShadow", "UnicodeBidi", "Visibility", "WrapOption"}
AppRuby == {"BackgroundColor", "Direction", "Display", "Opacity", "RubyAlign", "Visibility"}
AppRegion == {"BackgroundColor", "Disparity", "Display", "DisplayAlign", "Extent", "LuminanceGain", "Opacity", "Origin",
              "Overflow", "Padding", "Position", "ShowBackground", "Visibility", "WritingMode"}
AppRbc == {"BackgroundColor", "Direction", "Display", "Opacity", "Visibility"}
Applicable(kind) ==
  CASE kind \in {"body", "div"} -> AppBodyDiv [] kind = "p" -> AppP [] kind \in {"span", "rb", "rp"} -> AppSpan
    [] kind = "rt" -> AppSpan \cup {"RubyPosition"} [] kind = "ruby" -> AppRuby
    [] kind = "rbc" -> AppRbc [] kind = "rtc" -> AppRbc \cup {"RubyPosition"}
    [] kind = "region" -> AppRegion [] OTHER -> {}

\* documented content models that are sequences, not sets (doc/data_model.md):
\*   Ruby : Rb? Rt? | Rb? Rp Rt? Rp | Rbc Rtc Rtc?          Rtc : Rt* | Rp Rt* Rp
KidKinds(tree, q) == LET ks == SelectSeq([x \in 1..Len(tree) |-> x], LAMBDA x : tree[x].ppos = q)
                     IN  [x \in 1..Len(ks) |-> tree[ks[x]].kind]
RubyPattern(ks) ==
  ks \in {<<>>, <<"rb">>, <<"rt">>, <<"rb", "rt">>, <<"rp", "rp">>, <<"rb", "rp", "rp">>, <<"rp", "rt", "rp">>,
          <<"rb", "rp", "rt", "rp">>, <<"rbc", "rtc">>, <<"rbc", "rtc", "rtc">>}
RtcPattern(ks) ==
  \/ \A x \in 1..Len(ks) : ks[x] = "rt"
  \/ Len(ks) >= 2 /\ ks[1] = "rp" /\ ks[Len(ks)] = "rp" /\ \A x \in 2..(Len(ks) - 1) : ks[x] = "rt"

C13Node(rec, t, tree, q) ==
  LET nd == tree[q] IN
  /\ IF nd.kind = "ruby" THEN Chk(RubyPattern(KidKinds(tree, q)), rec.id, t, "c13_ruby_pattern") ELSE TRUE
  /\ IF nd.kind = "rtc" THEN Chk(RtcPattern(KidKinds(tree, q)), rec.id, t, "c13_rtc_pattern") ELSE TRUE
  /\ Chk(nd.hasb = 0 /\ nd.hase = 0, rec.id, t, "c13_no_timing")
  /\ Chk(nd.nsteps = 0, rec.id, t, "c13_no_animation_steps")
  /\ Chk(nd.regref = 0, rec.id, t, "c13_no_region_reference")
  /\ Chk(nd.owner = 1, rec.id, t, "c13_owned_by_snapshot")
  /\ Chk(nd.inapplicable = <<>>, rec.id, t, "c13_only_applicable_styles")
  /\ Chk(nd.nonroot = <<>>, rec.id, t, "c13_lengths_root_relative")
  /\ Chk(nd.dispnone = 0, rec.id, t, "c13_no_display_none")
  /\ IF nd.kind \in {"br", "text"} THEN Chk(nd.styles = <<>>, rec.id, t, "c13_leaf_has_no_styles")
     ELSE Chk(Range(nd.styles) = Applicable(nd.kind), rec.id, t, "c13_all_applicable_styles_present")
  /\ IF nd.kind = "text" THEN Chk(nd.txt # "", rec.id, t, "c13_no_empty_text") ELSE TRUE
  /\ IF nd.kind = "span" THEN Chk(\E q2 \in 1..Len(tree) : tree[q2].ppos = q, rec.id, t, "c13_no_childless_span") ELSE TRUE
  /\ IF nd.ppos = 0 THEN Chk(nd.kind = "region", rec.id, t, "c13_root_is_region")
     ELSE Chk(AllowedKid(tree[nd.ppos].kind, nd.kind), rec.id, t, "c13_content_model")
  /\ IF nd.kind = "region" THEN Chk(nd.origin_is_position = 1, rec.id, t, "c13_origin_equals_position") ELSE TRUE

C13At(rec, j) ==
  LET t == rec.times[j] ob == rec.obs[j] IN
  /\ Chk(rec.params[j] = rec.srcparams, rec.id, t, "c13_document_parameters")
  /\ \A k \in 1..Len(ob) :
       /\ Chk(ob[k].nbody <= 1 /\ ob[k].nchildren = ob[k].nbody, rec.id, t, "c13_region_holds_at_most_one_body")
       /\ Chk(ob[k].nchildren > 0 \/ ob[k].tree[1].showbg = "always", rec.id, t, "c13_empty_region_only_if_background_always")
       /\ \A q \in 1..Len(ob[k].tree) : C13Node(rec, t, ob[k].tree, q)

-----------------------------------------------------------------------------
(* C14: a snapshot computed with the significant-times cache renders like the one computed without:
   regions that have no content and paint nothing are ignored on both sides                         *)
Painting(ob) == LET p == SelectSeq(ob, LAMBDA rg : rg.paints = 1)
                IN  [k \in 1..Len(p) |-> [rid |-> p[k].rid, leaves |-> p[k].leaves, containers |-> p[k].containers, digest |-> p[k].digest]]
C14At(rec, j) == Chk(Painting(rec.obs[j]) = Painting(rec.obsc[j]), rec.id, rec.times[j], "c14_cached_renders_differently")

-----------------------------------------------------------------------------
CheckRec(r) ==
  LET rec == Recs[r] IN
  /\ IF "c01" \in Families THEN \A j \in 1..Len(rec.times) : C01At(rec, j) ELSE TRUE
  /\ IF "c02" \in Families THEN C02(rec) ELSE TRUE
  /\ IF "c13" \in Families THEN \A j \in 1..Len(rec.times) : C13At(rec, j) ELSE TRUE
  /\ IF "c14" \in Families
     THEN /\ \A j \in 1..Len(rec.times) : C14At(rec, j)
          \* rec.fps: fingerprint of the source before, after significant_times, after the snapshots, after the sequence
          /\ Chk(rec.fps[2] = rec.fps[1], rec.id, 0, "c14_source_changed_by_significant_times")
          /\ Chk(rec.fps[3] = rec.fps[2], rec.id, 0, "c14_source_changed_by_snapshots")
          /\ Chk(rec.fps[4] = rec.fps[3], rec.id, 0, "c14_source_changed_by_sequence")
     ELSE TRUE

B == 8
Min2(a, b) == IF a < b THEN a ELSE b
VARIABLE i
TInit == i = 1
TNext ==
  \/ /\ i <= Len(Recs)
     /\ (\A j \in i..Min2(i + B - 1, Len(Recs)) : CheckRec(j)) = TRUE
     /\ i' = Min2(i + B, Len(Recs) + 1)
  \/ /\ i = Len(Recs) + 1 /\ PrintT(<<"DONE", Len(Recs)>>) /\ i' = i + 1
=============================================================================
