--------------------------- MODULE Trace_VttReader ---------------------------
(* Trace validation for C11: what ttconv.vtt.reader.to_model returned for a recorded file must be what
   VttReader.tla says the file means.  One ndjson record per file:

     id     index given by the harness
     lines  the file, lexed: [blank, sig, arrow, kw, tm, set, cps]           (VttReader.tla, "Lines")
     obs    [raised |-> "" | exception type name, none |-> 1 iff to_model returned None,
             ps   |-> one entry per model.P in document order:
                      [bt, br, bw, bn, bd, et, er, ew, en, ed   type / exact value of begin and end (see Trace_SrtReader)
                       items    flattened inline content [c, b, i, u, col, bg, lang, role, rid, rb]
                       extra    number of inline nodes the projection does not know
                       reg],    index into regs of the region of the paragraph, 0 = none
             regs |-> the regions of the document [id, ox, oy, ew, eh, pct, da, ta, wm, reg]]

   A failing clause prints <<"FAIL", record, cue, clause>>; a file outside the grammar prints <<"SKIP", record, reason>>. *)
EXTENDS VttReader, Json, IOUtils, TLCExt

Recs == ndJsonDeserialize(IOEnv.TRACE_FILE)

Fail(r, x, clause) == PrintT(<<"FAIL", r, x, clause>>)
Chk(cond, r, x, clause) == IF cond THEN TRUE ELSE Fail(r, x, clause)

Chars(items) == [j \in 1..Len(items) |-> items[j].c]
Styles(items) == [j \in 1..Len(items) |-> <<items[j].b, items[j].i, items[j].u, items[j].col, items[j].bg>>]
Langs(items) == [j \in 1..Len(items) |-> items[j].lang]
Roles(items) == [j \in 1..Len(items) |-> <<items[j].role, items[j].rid>>]
Begins(items) == [j \in 1..Len(items) |-> items[j].rb]

CheckCue(r, j, cue, p, regs) ==
  LET exp == CueItems(cue.text, cue.begin) IN
  /\ Chk(p.br = 1 /\ p.er = 1, r, j, "time_type_" \o p.bt \o "_" \o p.et)
  /\ Chk(ExactlyEqual(cue.begin, p.bw, p.bn, p.bd), r, j, "begin_exact")
  /\ Chk(ExactlyEqual(cue.end, p.ew, p.en, p.ed), r, j, "end_exact")
  /\ Chk(Chars(p.items) = Chars(exp), r, j, "text_and_line_breaks")
  /\ IF Chars(p.items) # Chars(exp) THEN TRUE
     ELSE /\ Chk(Styles(p.items) = Styles(exp), r, j, "char_styles")
          /\ Chk(Langs(p.items) = Langs(exp), r, j, "char_lang")
          /\ Chk(Roles(p.items) = Roles(exp), r, j, "ruby_roles")
          /\ Chk(Begins(p.items) = Begins(exp), r, j, "timestamp_relative_begin")
  /\ Chk(p.extra = 0, r, j, "unexpected_inline_content")
  /\ IF p.reg = 0 THEN Fail(r, j, "paragraph_without_region")
     ELSE LET rg == regs[p.reg] IN
          /\ Chk(rg.reg = 1, r, j, "region_not_registered")
          /\ Chk(Inside(rg), r, j, "region_inside_root_container")
          /\ Chk(rg.wm = WritingModeOf(cue.set), r, j, "region_writing_mode")
          /\ Chk(rg.ta = TextAlignOf(cue.set), r, j, "region_text_align")
          /\ Chk(DisplayAlignOk(cue.set, rg.da), r, j, "region_display_align")

NonEmpty(c) == c.nlines > 0

CheckRec(r) ==
  LET rec == Recs[r]
      ff  == RunFile(rec.lines)
  IN  IF ff.bad # "" THEN PrintT(<<"SKIP", r, ff.bad>>)
      ELSE /\ Chk(rec.obs.raised = "", r, 0, "reader_raised_" \o rec.obs.raised)
           /\ Chk(rec.obs.none = 0, r, 0, "reader_rejected_file")
           /\ IF rec.obs.raised # "" \/ rec.obs.none = 1 THEN TRUE
              ELSE LET ps  == rec.obs.ps
                       \* a cue without payload shows nothing: it may be kept as an empty paragraph or dropped
                       exp == IF Len(ps) = Len(ff.cues) THEN ff.cues ELSE SelectSeq(ff.cues, NonEmpty)
                   IN  /\ Chk(Len(ps) = Len(exp), r, 0, "cue_count")
                       /\ \A j \in 1..Len(exp) : IF j <= Len(ps) THEN CheckCue(r, j, exp[j], ps[j], rec.obs.regs) ELSE TRUE
                       /\ IF Len(ps) # Len(exp) THEN TRUE
                          ELSE \A j \in 1..Len(exp) : \A k \in (j + 1)..Len(exp) :
                                 Chk(exp[j].set = exp[k].set => (ps[j].reg = ps[k].reg /\ ps[j].reg # 0), r, k, "equal_settings_share_region")

B == 16
VARIABLE i
TInit == i = 1
TNext ==
  \/ /\ i <= Len(Recs)
     /\ (\A j \in i..Min2(i + B - 1, Len(Recs)) : CheckRec(j)) = TRUE         \* evaluated as an expression
     /\ i' = Min2(i + B, Len(Recs) + 1)
  \/ /\ i = Len(Recs) + 1 /\ PrintT(<<"DONE", Len(Recs)>>) /\ i' = i + 1
=============================================================================
