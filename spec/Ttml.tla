----------------------------------- MODULE Ttml -----------------------------------
(* TTML2 time containment, region association and display pruning over an abstract canonical
   document - the semantics an ISD (snapshot) must realise.  Properties C01, C02, C13, C14.

   A document is a record
     n      number of content nodes, numbered 1..n in document (pre)order; node 1 is the body when n > 0
     kind   kind[k] \in {"body","div","p","span","br","text","ruby","rb","rt","rbc","rtc","rp"}
     parent parent[k] < k, 0 for the body
     b, e   begin / end offsets relative to the parent's begin, NoneT = -1 (br and text carry none)
     reg    region reference: 0 = none, else index of a region
     disp   specified tts:display: "" (unspecified) | "auto" | "none"
     anim   anim[k] = sequence of display animation steps [b, e, v] relative to the element's own begin
     txt    txt[k] = 1 for a text node with non-empty text, 0 for empty text (and for non text nodes)
     nr     number of regions (0: the default region)
     rb, re, rdisp, ranim   the same for regions (offsets relative to the document begin 0)
     rbg    rbg[r] \in {"always", "whenActive"}: computed tts:showBackground of region r
     idisp  the document's initial value for tts:display: "" | "auto" | "none"
   Times are integer ticks; the query time t too (the harness uses a half-tick grid: document times are
   even, odd t lie strictly between boundaries).

   TTML2 sec. 11.3.1.3 [associate region] and sec. 12 (time containment), spelled out:
     - an element is active when begin <= t < end, where begin = parent's begin + offset and
       end = min(parent's begin + offset, parent's end); it is presentable only when all its ancestors
       and its region are active too;
     - the region an element is associated with is the one it references, else the one its nearest
       referencing ancestor references, else none; with no region declared everything is in the
       default region;
     - when constructing the snapshot of region R every element associated with another region is
       pruned with its descendants, elements associated with no region survive only as the path to
       a descendant associated with R, and leaves (text, br) associated with no region are pruned;
     - an element whose computed tts:display is none (animation at t, else specified, else the
       document's initial value, else auto) is pruned with its descendants; likewise a region;
     - containers left without any presentable descendant are pruned (the ruby base rb/rbc is kept
       with its ruby container); a region without content stays iff its showBackground is always.   *)
EXTENDS Naturals, Integers, Sequences, FiniteSets, TLC

NoneT == -1

MinOpt(a, b) == IF a = NoneT THEN b ELSE IF b = NoneT THEN a ELSE IF a < b THEN a ELSE b
Off(x) == IF x = NoneT THEN 0 ELSE x

RECURSIVE AbsB(_, _)
AbsB(doc, k) == (IF doc.parent[k] = 0 THEN 0 ELSE AbsB(doc, doc.parent[k])) + Off(doc.b[k])

RECURSIVE AbsE(_, _)
AbsE(doc, k) ==
  LET pb  == IF doc.parent[k] = 0 THEN 0 ELSE AbsB(doc, doc.parent[k])
      pe  == IF doc.parent[k] = 0 THEN NoneT ELSE AbsE(doc, doc.parent[k])
      own == IF doc.e[k] = NoneT THEN NoneT ELSE pb + doc.e[k]
  IN  MinOpt(own, pe)

InInterval(bb, ee, t) == bb <= t /\ (ee = NoneT \/ t < ee)

ActiveSelf(doc, k, t) == InInterval(AbsB(doc, k), AbsE(doc, k), t)

RECURSIVE ActivePath(_, _, _)
ActivePath(doc, k, t) == ActiveSelf(doc, k, t) /\ (doc.parent[k] = 0 \/ ActivePath(doc, doc.parent[k], t))

\* value of the last animation step active at t (steps later in document order win), "" if none
RECURSIVE LastActive(_, _, _, _, _)
LastActive(steps, j, ob, oe, t) ==
  IF j = 0 THEN ""
  ELSE LET s  == steps[j]
           sb == ob + Off(s.b)
           se == MinOpt(IF s.e = NoneT THEN NoneT ELSE ob + s.e, oe)
       IN  IF InInterval(sb, se, t) THEN s.v ELSE LastActive(steps, j - 1, ob, oe, t)

DispAt(doc, k, t) ==
  LET a == LastActive(doc.anim[k], Len(doc.anim[k]), AbsB(doc, k), AbsE(doc, k), t)
  IN  IF a # "" THEN a ELSE IF doc.disp[k] # "" THEN doc.disp[k] ELSE IF doc.idisp # "" THEN doc.idisp ELSE "auto"

RECURSIVE HiddenPath(_, _, _)
HiddenPath(doc, k, t) == DispAt(doc, k, t) = "none" \/ (doc.parent[k] # 0 /\ HiddenPath(doc, doc.parent[k], t))

RECURSIVE Assoc(_, _)
Assoc(doc, k) == IF doc.reg[k] # 0 THEN doc.reg[k]
                 ELSE IF doc.parent[k] = 0 THEN 0 ELSE Assoc(doc, doc.parent[k])

\* every ancestor-or-self is associated with R or with nothing (otherwise it is pruned from R's tree)
RECURSIVE PathCompatible(_, _, _)
PathCompatible(doc, k, R) == Assoc(doc, k) \in {0, R} /\ (doc.parent[k] = 0 \/ PathCompatible(doc, doc.parent[k], R))

IsLeaf(doc, k) == doc.kind[k] \in {"br", "text"}

\* Ruby.  A ruby container is a base (rb / rbc) and an annotation (rt / rtc).  The base element comes with its container
\* even when it has nothing to show; the annotation is presented only with content of its own.  An annotation has
\* nothing to annotate without a base: when the base ELEMENT is not presentable the whole container goes.  When only the
\* annotation is not presentable, the base text is still presented (as plain spans of the paragraph - the ruby, rb
\* containers have no annotation to carry and are not part of the snapshot).
Presentable(doc, k, R, t) == ActivePath(doc, k, t) /\ ~HiddenPath(doc, k, t) /\ PathCompatible(doc, k, R)

\* (an element without children that is associated with no region at all is in no region's tree - region selection keeps an
\* unassociated element only for the sake of its descendants: an EMPTY base counts only where it is associated with R)
HasKids(doc, k) == \E c \in 1..doc.n : doc.parent[c] = k
BaseKept(doc, r, R, t) ==
  \E c \in 1..doc.n : /\ doc.parent[c] = r /\ doc.kind[c] \in {"rb", "rbc"} /\ Presentable(doc, c, R, t)
                       /\ (HasKids(doc, c) \/ Assoc(doc, c) = R)

RECURSIVE RubyOk(_, _, _, _)
RubyOk(doc, k, R, t) ==
  IF doc.parent[k] = 0 THEN TRUE
  ELSE /\ (doc.kind[doc.parent[k]] = "ruby" => BaseKept(doc, doc.parent[k], R, t))
       /\ RubyOk(doc, doc.parent[k], R, t)

\* R = 0 is the default region, which exists iff the document declares none
LeafIn(doc, k, R, t) ==
  /\ IsLeaf(doc, k)
  /\ doc.kind[k] = "text" => doc.txt[k] = 1
  /\ ActivePath(doc, k, t) /\ ~HiddenPath(doc, k, t)
  /\ Assoc(doc, k) = R /\ PathCompatible(doc, k, R)
  /\ RubyOk(doc, k, R, t)

RegionDispAt(doc, r, t) ==
  LET a == LastActive(doc.ranim[r], Len(doc.ranim[r]), Off(doc.rb[r]), doc.re[r], t)
  IN  IF a # "" THEN a ELSE IF doc.rdisp[r] # "" THEN doc.rdisp[r] ELSE IF doc.idisp # "" THEN doc.idisp ELSE "auto"

RegionLive(doc, r, t) ==
  IF r = 0 THEN doc.nr = 0 /\ (doc.idisp # "none")
  ELSE InInterval(Off(doc.rb[r]), doc.re[r], t) /\ RegionDispAt(doc, r, t) # "none"

Leaves(doc, R, t) == IF RegionLive(doc, R, t) THEN {k \in 1..doc.n : LeafIn(doc, k, R, t)} ELSE {}

RegionShown(doc, R, t) ==
  /\ RegionLive(doc, R, t)
  /\ Leaves(doc, R, t) # {} \/ (IF R = 0 THEN "always" ELSE doc.rbg[R]) = "always"

RECURSIVE Ancestors(_, _)
Ancestors(doc, k) == IF doc.parent[k] = 0 THEN {} ELSE {doc.parent[k]} \cup Ancestors(doc, doc.parent[k])

\* containers kept in region R: the ancestors of its leaves, plus ruby bases that come with a kept ruby container
Containers(doc, R, t) ==
  LET ls == Leaves(doc, R, t)
      up == UNION {Ancestors(doc, k) : k \in ls}
      \* ruby containers whose annotation shows nothing: only the base text is presented
      bare == {r \in up : doc.kind[r] = "ruby" /\
                 ~\E k \in ls : \E a \in Ancestors(doc, k) : doc.parent[a] = r /\ doc.kind[a] \in {"rt", "rtc"}}
      keptB == {k \in 1..doc.n : doc.kind[k] \in {"rb", "rbc"} /\ doc.parent[k] \in up /\ Presentable(doc, k, R, t)
                                   /\ (HasKids(doc, k) \/ Assoc(doc, k) = R)}
      \* a base inside a kept base container comes with it, also when it shows nothing itself
      keptB2 == {k \in 1..doc.n : doc.kind[k] = "rb" /\ doc.parent[k] \in keptB /\ Presentable(doc, k, R, t)
                                    /\ (HasKids(doc, k) \/ Assoc(doc, k) = R)}
      all == up \cup keptB \cup keptB2
  IN  all \ (bare \cup {k \in all : doc.kind[k] \in {"rb", "rbc"} /\ doc.parent[k] \in bare}
                   \cup {k \in all : doc.kind[k] = "rb" /\ doc.parent[k] # 0 /\ doc.parent[doc.parent[k]] \in bare})

SetToSeq(s) == LET RECURSIVE f(_) f(x) == IF x = {} THEN <<>> ELSE LET m == CHOOSE y \in x : \A z \in x : y <= z IN <<m>> \o f(x \ {m}) IN f(s)

RegionIds(doc) == IF doc.nr = 0 THEN {0} ELSE 1..doc.nr

\* the snapshot: for each shown region (in region order) the leaves in document order and the set of containers
Snapshot(doc, t) ==
  [R \in {r \in RegionIds(doc) : RegionShown(doc, r, t)} |->
     [leaves |-> SetToSeq(Leaves(doc, R, t)), containers |-> Containers(doc, R, t)]]

-----------------------------------------------------------------------------
(* Change points: begin/end of every element and region and of every animation step, the latter
   resolved against the element's OWN interval.  The presentation can only change there.            *)

StepTimes(steps, ob, oe) ==
  UNION {{ob + Off(steps[j].b)} \cup (LET se == MinOpt(IF steps[j].e = NoneT THEN NoneT ELSE ob + steps[j].e, oe)
                                      IN IF se = NoneT THEN {} ELSE {se}) : j \in 1..Len(steps)}

SpecSigTimes(doc) ==
  UNION {{AbsB(doc, k)} \cup (IF AbsE(doc, k) = NoneT THEN {} ELSE {AbsE(doc, k)})
         \cup StepTimes(doc.anim[k], AbsB(doc, k), AbsE(doc, k)) : k \in 1..doc.n}
  \cup UNION {{Off(doc.rb[r])} \cup (IF doc.re[r] = NoneT THEN {} ELSE {doc.re[r]})
         \cup StepTimes(doc.ranim[r], Off(doc.rb[r]), doc.re[r]) : r \in 1..doc.nr}

-----------------------------------------------------------------------------
(* Design-level properties of Snapshot (checked by TLC in Timeline.tla) *)

NoDuplicates(doc, t) ==
  \A R1, R2 \in DOMAIN Snapshot(doc, t) : R1 # R2 =>
     Leaves(doc, R1, t) \cap Leaves(doc, R2, t) = {}
ActiveOnly(doc, t) ==
  \A R \in DOMAIN Snapshot(doc, t) : \A k \in Leaves(doc, R, t) \cup Containers(doc, R, t) :
     ActivePath(doc, k, t) /\ ~HiddenPath(doc, k, t)
WellFormedDoc(doc) ==
  /\ \A k \in 1..doc.n : doc.parent[k] < k
  /\ \A k \in 1..doc.n : doc.reg[k] \in 0..doc.nr
=============================================================================
