------------------------------ MODULE VttFileMC ------------------------------
(* Generating machine for WebVTT files (C11): one action per line class of the file grammar.  The state carries the
   reader state after the lines written so far (FileStep of VttReader.tla folded over hist); hist IS the file.  *)
EXTENDS VttReader

CONSTANTS SigLines, HeaderLines, NoteLines, IdLines, TimingLines, PayloadLines,   \* sequences of lexed lines
          MaxCues, MaxPayload, MaxBlankRun, MaxOther

VARIABLES fs, hist, nb, nother, done
vars == <<fs, hist, nb, nother, done>>

LBlank == [blank |-> 1, sig |-> 0, arrow |-> 0, kw |-> "", tm |-> <<>>, set |-> <<>>, cps |-> <<>>]

Init == fs = FileInit /\ hist = <<>> /\ nb = 0 /\ nother = 0 /\ done = FALSE

Put(ln) == fs' = FileStep(fs, ln) /\ hist' = Append(hist, ln)

Signature(k) == ~done /\ fs.st = "Start" /\ Put(SigLines[k]) /\ UNCHANGED <<nb, nother, done>>
Header(k)    == ~done /\ fs.st = "Header" /\ nother < MaxOther /\ Put(HeaderLines[k]) /\ nother' = nother + 1 /\ UNCHANGED <<nb, done>>
Blank        == /\ ~done /\ fs.st \in {"Header", "Looking", "Skip", "Text"} /\ nb < MaxBlankRun
                /\ Put(LBlank) /\ nb' = (IF fs.st = "Looking" THEN nb + 1 ELSE 1) /\ UNCHANGED <<nother, done>>
Note(k)      == /\ ~done /\ nother < MaxOther
                /\ (fs.st = "Looking" /\ NoteLines[k].kw # "") \/ (fs.st = "Skip" /\ NoteLines[k].kw = "")
                /\ Put(NoteLines[k]) /\ nother' = nother + 1 /\ nb' = 0 /\ UNCHANGED done
Ident(k)     == /\ ~done /\ fs.st = "Looking" /\ Len(fs.cues) < MaxCues
                /\ Put(IdLines[k]) /\ nb' = 0 /\ UNCHANGED <<nother, done>>
Timing(k)    == /\ ~done /\ fs.st \in {"Looking", "Id"} /\ Len(fs.cues) < MaxCues
                /\ Put(TimingLines[k]) /\ nb' = 0 /\ UNCHANGED <<nother, done>>
Payload(k)   == /\ ~done /\ fs.st = "Text" /\ fs.nlines < MaxPayload
                /\ Put(PayloadLines[k]) /\ nb' = 0 /\ UNCHANGED <<nother, done>>
EndOfFile    == /\ ~done /\ fs.st \in {"Header", "Looking", "Skip", "Text"}
                /\ fs' = FileEnd(fs) /\ done' = TRUE /\ UNCHANGED <<hist, nb, nother>>

Next == \/ Blank \/ EndOfFile
        \/ \E k \in 1..Len(SigLines) : Signature(k)
        \/ \E k \in 1..Len(HeaderLines) : Header(k)
        \/ \E k \in 1..Len(NoteLines) : Note(k)
        \/ \E k \in 1..Len(IdLines) : Ident(k)
        \/ \E k \in 1..Len(TimingLines) : Timing(k)
        \/ \E k \in 1..Len(PayloadLines) : Payload(k)
Spec == Init /\ [][Next]_vars

Inv_Deterministic == fs = (IF done THEN RunFile(hist) ELSE FoldFile(FileInit, hist, 1))
Inv_InGrammar == fs.bad = ""

\* cues are exactly the timing lines, in order, with their times, settings and payload lines; comments, styles,
\* region definitions, identifiers and header lines never become cues or text
TimingIdx == {j \in 1..Len(hist) : hist[j].tm # <<>>}
NthTiming(n) == CHOOSE j \in TimingIdx : Cardinality({x \in TimingIdx : x <= j}) = n
RECURSIVE PayloadAfter(_)
PayloadAfter(j) == IF j > Len(hist) \/ hist[j].blank = 1 THEN <<>> ELSE <<hist[j].cps>> \o PayloadAfter(j + 1)
RECURSIVE Join(_)
Join(ls) == IF ls = <<>> THEN <<>> ELSE IF Len(ls) = 1 THEN ls[1] ELSE (ls[1] \o <<LF>>) \o Join(Tail(ls))
Inv_CuesAreTimingLines ==
  /\ Len(fs.cues) \in {Cardinality(TimingIdx), Cardinality(TimingIdx) - 1}
  /\ done => Len(fs.cues) = Cardinality(TimingIdx)
  /\ \A n \in 1..Len(fs.cues) :
       LET j  == NthTiming(n)
           tm == hist[j].tm
           c  == fs.cues[n]
       IN  /\ c.begin = Time(tm[1], tm[2], tm[3], tm[4]) /\ c.end = Time(tm[5], tm[6], tm[7], tm[8])
           /\ c.set = hist[j].set
           /\ c.text = Join(PayloadAfter(j + 1))
           /\ c.nlines = Len(PayloadAfter(j + 1))
=============================================================================
