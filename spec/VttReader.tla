------------------------------ MODULE VttReader ------------------------------
(* Property C11: what a WebVTT file means.  Operators only (no variables): the generating machines are in
   VttFileMC.tla, VttTextMC.tla and VttRegionMC.tla, the trace validation in Trace_VttReader.tla.

   Written from the WebVTT Recommendation, not from ttconv/vtt/*.py:
     sec. 4 / 6.1   file structure: signature line, optional header lines, blocks separated by blank lines;
                    NOTE / STYLE / REGION blocks are not cues; a cue block is an optional identifier line, a
                    timing line "begin --> end settings" and the payload lines up to the next blank line / EOF
     sec. 4.3       timestamps [hh+:]mm:ss.ttt  = an integer number of milliseconds (exact rational ms/1000 s)
     sec. 6.4       cue text tokenizer (character level) and cue text parsing rules (tree builder)
     sec. 6.3, 7.2  cue settings and how they place the cue box
   Characters are code points (TLC strings are atomic).                                                  *)
EXTENDS Integers, Sequences, FiniteSets, TLC

-----------------------------------------------------------------------------
(* Time: integer milliseconds S*1000+ms in mixed radix <<S, ms>> (32-bit safe up to 999 h and beyond).     *)
Secs(h, m, s)     == (h * 60 + m) * 60 + s
Time(h, m, s, ms) == <<Secs(h, m, s), ms>>
TimeLeq(a, b)     == a[1] < b[1] \/ (a[1] = b[1] /\ a[2] <= b[2])
TimeDiffMs(a, b)  == (a[1] - b[1]) * 1000 + (a[2] - b[2])          \* a - b, for times that are close
ExactlyEqual(t, whole, rnum, rden) == rden > 0 /\ whole = t[1] /\ rnum * 1000 = t[2] * rden

-----------------------------------------------------------------------------
(* Code points *)
TAB == 9  LF == 10  FF == 12  SP == 32  HASH == 35  AMP == 38  DOT == 46  SLASH == 47  COLON == 58
SEMI == 59  LT == 60  GT == 62  EOF == -1
IsDigit(c) == c \in 48..57
IsHex(c)   == c \in 48..57 \/ c \in 65..70 \/ c \in 97..102
HexVal(c)  == IF c \in 48..57 THEN c - 48 ELSE IF c \in 65..70 THEN c - 55 ELSE c - 87
At(inp, p) == IF p >= 1 /\ p <= Len(inp) THEN inp[p] ELSE EOF

\* tag names and class names as code point sequences
N_c == <<99>>  N_i == <<105>>  N_b == <<98>>  N_u == <<117>>  N_v == <<118>>
N_ruby == <<114, 117, 98, 121>>  N_rt == <<114, 116>>  N_lang == <<108, 97, 110, 103>>
SpanNames == {N_c, N_i, N_b, N_u, N_v, N_ruby, N_lang}

\* sec. 8.2.1 default classes: colour name -> RGBA
ClassColour(n) ==
  CASE n = <<119, 104, 105, 116, 101>> -> <<255, 255, 255, 255>>            \* white
    [] n = <<108, 105, 109, 101>> -> <<0, 255, 0, 255>>                      \* lime
    [] n = <<99, 121, 97, 110>> -> <<0, 255, 255, 255>>                      \* cyan
    [] n = <<114, 101, 100>> -> <<255, 0, 0, 255>>                           \* red
    [] n = <<121, 101, 108, 108, 111, 119>> -> <<255, 255, 0, 255>>          \* yellow
    [] n = <<109, 97, 103, 101, 110, 116, 97>> -> <<255, 0, 255, 255>>       \* magenta
    [] n = <<98, 108, 117, 101>> -> <<0, 0, 255, 255>>                       \* blue
    [] n = <<98, 108, 97, 99, 107>> -> <<0, 0, 0, 255>>                      \* black
    [] OTHER -> <<>>
BgPrefix == <<98, 103, 95>>                                                  \* "bg_"
IsBgClass(n) == Len(n) > 3 /\ SubSeq(n, 1, 3) = BgPrefix /\ ClassColour(SubSeq(n, 4, Len(n))) # <<>>
FgOf(n) == ClassColour(n)
BgOf(n) == IF IsBgClass(n) THEN ClassColour(SubSeq(n, 4, Len(n))) ELSE <<>>

-----------------------------------------------------------------------------
(* Character references.  The generated domain uses the six named references of the WebVTT grammar
   (&amp; &lt; &gt; &lrm; &rlm; &nbsp;) and numeric references; anything else after '&' is not a reference and
   the '&' stands for itself (HTML "consume a character reference": nothing is returned).                *)
NamedRefs == { [n |-> <<97, 109, 112>>, v |-> 38], [n |-> <<108, 116>>, v |-> 60], [n |-> <<103, 116>>, v |-> 62],
               [n |-> <<110, 98, 115, 112>>, v |-> 160], [n |-> <<108, 114, 109>>, v |-> 8206],
               [n |-> <<114, 108, 109>>, v |-> 8207] }

RECURSIVE DigitRun(_, _, _)
DigitRun(inp, p, hex) == IF (IF hex THEN IsHex(At(inp, p)) ELSE IsDigit(At(inp, p))) THEN 1 + DigitRun(inp, p + 1, hex) ELSE 0
RECURSIVE ZeroRun(_, _, _)
ZeroRun(inp, p, n) == IF n > 0 /\ At(inp, p) = 48 THEN 1 + ZeroRun(inp, p + 1, n - 1) ELSE 0
RECURSIVE NumVal(_, _, _, _)
NumVal(inp, p, n, base) == IF n = 0 THEN 0 ELSE NumVal(inp, p, n - 1, base) * base + HexVal(inp[p + n - 1])

\* p = position just after the '&'.  Result: n = number of characters consumed after the '&' (0: not a reference)
CharRef(inp, p) ==
  IF At(inp, p) = HASH
  THEN LET hex   == At(inp, p + 1) \in {120, 88}
           start == IF hex THEN p + 2 ELSE p + 1
           nd    == DigitRun(inp, start, hex)
           \* leading zeros carry no value: any number of them may precede the significant digits
           lead  == ZeroRun(inp, start, nd)
           sig   == nd - lead
       IN  IF nd = 0 \/ sig > 6 THEN [n |-> 0, data |-> <<>>]         \* (more than six significant digits: outside the generated domain)
           ELSE [n |-> (start - p) + nd + (IF At(inp, start + nd) = SEMI THEN 1 ELSE 0),
                 data |-> <<NumVal(inp, start + lead, sig, IF hex THEN 16 ELSE 10)>>]
  ELSE LET M == {r \in NamedRefs : /\ p + Len(r.n) <= Len(inp)
                                   /\ SubSeq(inp, p, p + Len(r.n) - 1) = r.n
                                   /\ inp[p + Len(r.n)] = SEMI}
       IN  IF M = {} THEN [n |-> 0, data |-> <<>>]
           ELSE LET r == CHOOSE r \in M : TRUE IN [n |-> Len(r.n) + 1, data |-> <<r.v>>]

-----------------------------------------------------------------------------
(* Cue text tokenizer, sec. 6.4 "WebVTT cue text tokenizer".  A token is [t, v, cls, ann]:
     t = "str" (v = characters), "start" (v = tag name, cls = classes, ann = annotation), "end" (v = tag name),
     "ts" (v = characters of the timestamp).                                                              *)
Tok(t, v, cls, ann) == [t |-> t, v |-> v, cls |-> cls, ann |-> ann]
IsWs(c) == c \in {TAB, LF, FF, SP}

\* annotation: strip leading / trailing white space, collapse runs
RECURSIVE Collapse(_, _, _)
Collapse(s, k, pendingSpace) ==
  IF k > Len(s) THEN <<>>
  ELSE IF IsWs(s[k]) THEN Collapse(s, k + 1, TRUE)
  ELSE (IF pendingSpace THEN <<SP>> ELSE <<>>) \o <<s[k]>> \o Collapse(s, k + 1, FALSE)
RECURSIVE SkipWs(_, _)
SkipWs(s, k) == IF k <= Len(s) /\ IsWs(s[k]) THEN SkipWs(s, k + 1) ELSE k
Normalise(s) == Collapse(s, SkipWs(s, 1), FALSE)

TkInit(pos) == [st |-> "data", pos |-> pos, res |-> <<>>, buf |-> <<>>, cls |-> <<>>, tok |-> Tok("", <<>>, <<>>, <<>>), done |-> FALSE]
Ret(s, tok, adv) == [s EXCEPT !.tok = tok, !.done = TRUE, !.pos = @ + adv]

TkStep(inp, s) ==
  LET c == At(inp, s.pos) IN
  CASE s.st = "data" ->
         IF c = AMP THEN LET r == CharRef(inp, s.pos + 1) IN
                         IF r.n = 0 THEN [s EXCEPT !.res = Append(@, AMP), !.pos = @ + 1]
                         ELSE [s EXCEPT !.res = @ \o r.data, !.pos = @ + 1 + r.n]
         ELSE IF c = LT THEN (IF s.res = <<>> THEN [s EXCEPT !.st = "tag", !.pos = @ + 1]
                              ELSE Ret(s, Tok("str", s.res, <<>>, <<>>), 0))
         ELSE IF c = EOF THEN Ret(s, Tok("str", s.res, <<>>, <<>>), 0)
         ELSE [s EXCEPT !.res = Append(@, c), !.pos = @ + 1]
    [] s.st = "tag" ->
         IF IsWs(c) THEN [s EXCEPT !.st = "annot", !.pos = @ + 1]
         ELSE IF c = DOT THEN [s EXCEPT !.st = "class", !.pos = @ + 1]
         ELSE IF c = SLASH THEN [s EXCEPT !.st = "end", !.pos = @ + 1]
         ELSE IF IsDigit(c) THEN [s EXCEPT !.st = "ts", !.res = <<c>>, !.pos = @ + 1]
         ELSE IF c = GT THEN Ret(s, Tok("start", <<>>, <<>>, <<>>), 1)
         ELSE IF c = EOF THEN Ret(s, Tok("start", <<>>, <<>>, <<>>), 0)
         ELSE [s EXCEPT !.st = "start", !.res = <<c>>, !.pos = @ + 1]
    [] s.st = "start" ->
         IF c \in {TAB, FF, SP} THEN [s EXCEPT !.st = "annot", !.pos = @ + 1]
         ELSE IF c = LF THEN [s EXCEPT !.st = "annot", !.buf = <<c>>, !.pos = @ + 1]
         ELSE IF c = DOT THEN [s EXCEPT !.st = "class", !.pos = @ + 1]
         ELSE IF c = GT THEN Ret(s, Tok("start", s.res, <<>>, <<>>), 1)
         ELSE IF c = EOF THEN Ret(s, Tok("start", s.res, <<>>, <<>>), 0)
         ELSE [s EXCEPT !.res = Append(@, c), !.pos = @ + 1]
    [] s.st = "class" ->
         IF c \in {TAB, FF, SP} THEN [s EXCEPT !.st = "annot", !.cls = Append(@, s.buf), !.buf = <<>>, !.pos = @ + 1]
         ELSE IF c = LF THEN [s EXCEPT !.st = "annot", !.cls = Append(@, s.buf), !.buf = <<c>>, !.pos = @ + 1]
         ELSE IF c = DOT THEN [s EXCEPT !.cls = Append(@, s.buf), !.buf = <<>>, !.pos = @ + 1]
         ELSE IF c = GT THEN Ret(s, Tok("start", s.res, Append(s.cls, s.buf), <<>>), 1)
         ELSE IF c = EOF THEN Ret(s, Tok("start", s.res, Append(s.cls, s.buf), <<>>), 0)
         ELSE [s EXCEPT !.buf = Append(@, c), !.pos = @ + 1]
    [] s.st = "annot" ->
         IF c = AMP THEN LET r == CharRef(inp, s.pos + 1) IN
                         IF r.n = 0 THEN [s EXCEPT !.buf = Append(@, AMP), !.pos = @ + 1]
                         ELSE [s EXCEPT !.buf = @ \o r.data, !.pos = @ + 1 + r.n]
         ELSE IF c = GT THEN Ret(s, Tok("start", s.res, s.cls, Normalise(s.buf)), 1)
         ELSE IF c = EOF THEN Ret(s, Tok("start", s.res, s.cls, Normalise(s.buf)), 0)
         ELSE [s EXCEPT !.buf = Append(@, c), !.pos = @ + 1]
    [] s.st = "end" ->
         IF c = GT THEN Ret(s, Tok("end", s.res, <<>>, <<>>), 1)
         ELSE IF c = EOF THEN Ret(s, Tok("end", s.res, <<>>, <<>>), 0)
         ELSE [s EXCEPT !.res = Append(@, c), !.pos = @ + 1]
    [] s.st = "ts" ->
         IF c = GT THEN Ret(s, Tok("ts", s.res, <<>>, <<>>), 1)
         ELSE IF c = EOF THEN Ret(s, Tok("ts", s.res, <<>>, <<>>), 0)
         ELSE [s EXCEPT !.res = Append(@, c), !.pos = @ + 1]

RECURSIVE TkRun(_, _)
TkRun(inp, s) == IF s.done THEN s ELSE TkRun(inp, TkStep(inp, s))
RECURSIVE TokensFrom(_, _)
TokensFrom(inp, pos) == IF pos > Len(inp) THEN <<>>
                        ELSE LET s == TkRun(inp, TkInit(pos)) IN <<s.tok>> \o TokensFrom(inp, s.pos)
Tokens(inp) == TokensFrom(inp, 1)

-----------------------------------------------------------------------------
(* Timestamps inside cue text: mm:ss.ttt or hh+:mm:ss.ttt (sec. 4.3 "collect a WebVTT timestamp").
   Result <<S, ms>> or <<>> when the characters are not a timestamp.                                      *)
D2(s, k) == (s[k] - 48) * 10 + (s[k + 1] - 48)
AllDigits(s, a, b) == \A k \in a..b : IsDigit(s[k])
ParseTs(s) ==
  LET n == Len(s) IN
  IF n = 9 /\ AllDigits(s, 1, 2) /\ s[3] = COLON /\ AllDigits(s, 4, 5) /\ s[6] = DOT /\ AllDigits(s, 7, 9) /\ D2(s, 1) < 60 /\ D2(s, 4) < 60
  THEN Time(0, D2(s, 1), D2(s, 4), (s[7] - 48) * 100 + D2(s, 8))
  ELSE IF n >= 12 /\ n <= 15 /\ AllDigits(s, 1, n - 10) /\ s[n - 9] = COLON /\ AllDigits(s, n - 8, n - 7) /\ s[n - 6] = COLON
          /\ AllDigits(s, n - 5, n - 4) /\ s[n - 3] = DOT /\ AllDigits(s, n - 2, n) /\ D2(s, n - 8) < 60 /\ D2(s, n - 5) < 60
  THEN Time(NumVal(s, 1, n - 10, 10), D2(s, n - 8), D2(s, n - 5), (s[n - 2] - 48) * 100 + D2(s, n - 1))
  ELSE <<>>

-----------------------------------------------------------------------------
(* Cue text parsing rules, sec. 6.4: the tree builder, kept as the stack of open nodes.  Output: one item per
   character  [c, b, i, u, col, bg, lang, role, rid, rb]:
     c     code point (10 = line break)               b, i, u   0/1: inside a b / i / u node
     col   colour of the innermost c node with a colour class, else <<>>;  bg likewise for bg_ classes
     lang  annotation of the innermost lang node, else <<>>
     role  "rt" inside an rt node, "rb" inside a ruby node but not inside rt, "" otherwise; rid = number of the ruby node
     rb    milliseconds from the begin of the cue to the latest timestamp tag before the character, -1 if none   *)

Node(name, cls, ann, rid) == [name |-> name, cls |-> cls, ann |-> ann, rid |-> rid]
BInit == [stack |-> <<>>, ts |-> -1, out |-> <<>>, nruby |-> 0]

Has(stack, name) == \E j \in 1..Len(stack) : stack[j].name = name
LastWith(stack, P(_)) == LET S == {j \in 1..Len(stack) : P(stack[j])} IN
                         IF S = {} THEN 0 ELSE CHOOSE j \in S : \A x \in S : x <= j
LastClass(cls, F(_)) == LET S == {j \in 1..Len(cls) : F(cls[j]) # <<>>} IN
                        IF S = {} THEN <<>> ELSE F(cls[CHOOSE j \in S : \A x \in S : x <= j])
HasFg(nd) == nd.name = N_c /\ LastClass(nd.cls, FgOf) # <<>>
HasBg(nd) == nd.name = N_c /\ LastClass(nd.cls, BgOf) # <<>>
IsLang(nd) == nd.name = N_lang
IsRuby(nd) == nd.name = N_ruby

ItemOf(c, stack, ts) ==
  [c |-> c,
   b |-> IF Has(stack, N_b) THEN 1 ELSE 0, i |-> IF Has(stack, N_i) THEN 1 ELSE 0, u |-> IF Has(stack, N_u) THEN 1 ELSE 0,
   col |-> LET j == LastWith(stack, HasFg) IN IF j = 0 THEN <<>> ELSE LastClass(stack[j].cls, FgOf),
   bg |-> LET j == LastWith(stack, HasBg) IN IF j = 0 THEN <<>> ELSE LastClass(stack[j].cls, BgOf),
   lang |-> LET j == LastWith(stack, IsLang) IN IF j = 0 THEN <<>> ELSE stack[j].ann,
   role |-> IF Has(stack, N_rt) THEN "rt" ELSE IF Has(stack, N_ruby) THEN "rb" ELSE "",
   rid |-> LET j == LastWith(stack, IsRuby) IN IF j = 0 THEN 0 ELSE stack[j].rid,
   rb |-> ts]
BrItem == [c |-> 10, b |-> 0, i |-> 0, u |-> 0, col |-> <<>>, bg |-> <<>>, lang |-> <<>>, role |-> "", rid |-> 0, rb |-> -1]
\* a line break carries no style; inside a ruby node it stays with the base / annotation it is written in
ItemOrBr(c, stack, ts) == IF c = LF THEN LET it == ItemOf(c, stack, ts) IN [BrItem EXCEPT !.role = it.role, !.rid = it.rid]
                          ELSE ItemOf(c, stack, ts)

BuildStep(bs, tok, begin) ==
  CASE tok.t = "str" ->
         [bs EXCEPT !.out = @ \o [j \in 1..Len(tok.v) |-> ItemOrBr(tok.v[j], bs.stack, bs.ts)]]
    [] tok.t = "start" ->
         IF tok.v = N_ruby THEN [bs EXCEPT !.stack = Append(@, Node(tok.v, tok.cls, tok.ann, bs.nruby + 1)), !.nruby = @ + 1]
         ELSE IF tok.v \in SpanNames THEN [bs EXCEPT !.stack = Append(@, Node(tok.v, tok.cls, tok.ann, 0))]
         ELSE IF tok.v = N_rt /\ bs.stack # <<>> /\ bs.stack[Len(bs.stack)].name = N_ruby
              THEN [bs EXCEPT !.stack = Append(@, Node(tok.v, tok.cls, tok.ann, 0))]
         ELSE bs                                                           \* ignored
    [] tok.t = "end" ->
         IF bs.stack # <<>> /\ bs.stack[Len(bs.stack)].name = tok.v THEN [bs EXCEPT !.stack = SubSeq(@, 1, Len(@) - 1)]
         ELSE IF tok.v = N_ruby /\ Len(bs.stack) >= 2 /\ bs.stack[Len(bs.stack)].name = N_rt
              THEN [bs EXCEPT !.stack = SubSeq(@, 1, Len(@) - 2)]
         ELSE bs                                                           \* an end tag that does not match the current node is ignored
    [] tok.t = "ts" ->
         LET t == ParseTs(tok.v) IN
         IF t # <<>> /\ TimeLeq(begin, t) THEN [bs EXCEPT !.ts = TimeDiffMs(t, begin)] ELSE bs

RECURSIVE BuildFrom(_, _, _, _)
BuildFrom(bs, toks, k, begin) == IF k > Len(toks) THEN bs ELSE BuildFrom(BuildStep(bs, toks[k], begin), toks, k + 1, begin)

(* The canonical model keeps the bases of a ruby node together and its annotations together (rbc / rtc containers):
   inside one ruby node the order is all base characters, then all annotation characters.                 *)
RECURSIVE RunEnd(_, _)
RunEnd(items, k) == IF k < Len(items) /\ items[k + 1].rid = items[k].rid THEN RunEnd(items, k + 1) ELSE k
IsRb(it) == it.role = "rb"
IsRt(it) == it.role = "rt"
RECURSIVE RubyOrderFrom(_, _)
RubyOrderFrom(items, k) ==
  IF k > Len(items) THEN <<>>
  ELSE LET e   == RunEnd(items, k)
           run == SubSeq(items, k, e)
       IN  (IF items[k].rid = 0 THEN run ELSE SelectSeq(run, IsRb) \o SelectSeq(run, IsRt)) \o RubyOrderFrom(items, e + 1)

CueItems(text, begin) == RubyOrderFrom(BuildFrom(BInit, Tokens(text), 1, begin).out, 1)

-----------------------------------------------------------------------------
(* Lines.  The harness LEXES a line into
     [blank, sig, arrow, kw, tm, set, cps]
   blank = 1: empty line; sig = 1: "WEBVTT" alone or followed by space / tab; arrow = 1: contains "-->";
   kw = "NOTE" | "STYLE" | "REGION" | "" (the line is that keyword, alone or followed by white space);
   tm = <<bh,bm,bs,bms, eh,em,es,ems>> if the line is a timing line, else <<>>; set = its lexed cue settings;
   cps = the characters of the line.                                                                      *)

FileInit == [st |-> "Start", cues |-> <<>>, cb |-> <<0, 0>>, ce |-> <<0, 0>>, cset |-> <<>>, ctext |-> <<>>,
             nlines |-> 0, bad |-> ""]
Emit(fs) == [fs EXCEPT !.cues = Append(@, [begin |-> fs.cb, end |-> fs.ce, set |-> fs.cset, text |-> fs.ctext, nlines |-> fs.nlines]),
                       !.st = "Looking", !.ctext = <<>>, !.nlines = 0]
TmFieldsOk(tm) == /\ tm[2] \in 0..59 /\ tm[3] \in 0..59 /\ tm[4] \in 0..999
                  /\ tm[6] \in 0..59 /\ tm[7] \in 0..59 /\ tm[8] \in 0..999
StartCue(fs, ln) ==
  IF ln.tm # <<>> /\ TmFieldsOk(ln.tm)
  THEN [fs EXCEPT !.st = "Text", !.ctext = <<>>, !.nlines = 0, !.cset = ln.set,
                  !.cb = Time(ln.tm[1], ln.tm[2], ln.tm[3], ln.tm[4]), !.ce = Time(ln.tm[5], ln.tm[6], ln.tm[7], ln.tm[8])]
  ELSE [fs EXCEPT !.bad = "malformed_timing_line"]

FileStep(fs, ln) ==
  IF fs.bad # "" THEN fs
  ELSE CASE fs.st = "Start" -> IF ln.sig = 1 THEN [fs EXCEPT !.st = "Header"] ELSE [fs EXCEPT !.bad = "signature_expected"]
         [] fs.st = "Header" -> IF ln.blank = 1 THEN [fs EXCEPT !.st = "Looking"]
                                ELSE IF ln.arrow = 1 THEN [fs EXCEPT !.bad = "cue_in_header"] ELSE fs
         [] fs.st = "Looking" ->
              IF ln.blank = 1 THEN fs
              ELSE IF ln.arrow = 1 THEN StartCue(fs, ln)
              ELSE IF ln.kw \in {"NOTE", "STYLE", "REGION"} THEN [fs EXCEPT !.st = "Skip"]      \* not a cue: skipped
              ELSE [fs EXCEPT !.st = "Id"]                                                     \* cue identifier
         [] fs.st = "Skip" -> IF ln.blank = 1 THEN [fs EXCEPT !.st = "Looking"]
                              ELSE IF ln.arrow = 1 THEN [fs EXCEPT !.bad = "arrow_in_comment_or_style_block"] ELSE fs
         [] fs.st = "Id" -> IF ln.arrow = 1 THEN StartCue(fs, ln) ELSE [fs EXCEPT !.bad = "timing_expected_after_identifier"]
         [] fs.st = "Text" ->
              IF ln.blank = 1 THEN Emit(fs)
              ELSE IF ln.arrow = 1 THEN [fs EXCEPT !.bad = "arrow_in_payload"]
              ELSE [fs EXCEPT !.ctext = IF fs.nlines = 0 THEN ln.cps ELSE (@ \o <<LF>>) \o ln.cps, !.nlines = @ + 1]

FileEnd(fs) ==
  IF fs.bad # "" THEN fs
  ELSE CASE fs.st = "Start" -> [fs EXCEPT !.bad = "signature_expected"]
         [] fs.st = "Id" -> [fs EXCEPT !.bad = "timing_expected_after_identifier"]
         [] fs.st = "Text" -> Emit(fs)
         [] OTHER -> fs

RECURSIVE FoldFile(_, _, _)
FoldFile(fs, lines, k) == IF k > Len(lines) THEN fs ELSE FoldFile(FileStep(fs, lines[k]), lines, k + 1)
RunFile(lines) == FileEnd(FoldFile(FileInit, lines, 1))

-----------------------------------------------------------------------------
(* Cue settings -> region.  A lexed setting is [name, kind, num, kw, al]:
     vertical:rl|lr            kind "kw", kw = value
     line:N% | line:N [,al]    kind "pct" (num = hundredths of a percent) | "int" (num = line number), al = "" | start | center | end
     position:N% [,al]         kind "pct", al = "" | line-left | center | line-right
     size:N%                   kind "pct"
     align:start|center|end|left|right   kind "kw"
   An observed region is [id, ox, oy, ew, eh (hundredths of a percent of the root container), pct (1 iff all four
   lengths are percentages), da, ta, wm, reg (1 iff it is the object registered in the document under id)].

   The property: the region lies inside the root container with non-negative extent, has the writing mode selected
   by `vertical`, the text alignment of `align` and the display alignment the rendering rules give for the `line`
   alignment; it does NOT fix where a line NUMBER lands.                                                  *)

Setting(set, name) == LET S == {j \in 1..Len(set) : set[j].name = name} IN
                      IF S = {} THEN [name |-> "", kind |-> "", num |-> 0, kw |-> "", al |-> ""]
                      ELSE set[CHOOSE j \in S : \A x \in S : x <= j]            \* a later setting overrides an earlier one

WritingModeOf(set) == LET v == Setting(set, "vertical") IN
                      IF v.kw = "rl" THEN "tbrl" ELSE IF v.kw = "lr" THEN "tblr" ELSE "lrtb"
TextAlignOf(set) == LET a == Setting(set, "align").kw IN
                    CASE a \in {"start", "left"} -> "start" [] a \in {"end", "right"} -> "end" [] OTHER -> "center"
\* sec. 7.2: without a line setting the cue sits at the far edge of the block direction (auto line, last line): after;
\* with one, the line alignment anchors the box: start -> its before edge, center, end -> its after edge.
\* For vertical:rl with a PERCENTAGE the Recommendation measures from the left edge, which is the after edge of a
\* tbrl region, while line numbers count from the right: both readings are accepted there.
DisplayAlignOk(set, da) ==
  LET l == Setting(set, "line") IN
  IF l.name = "" THEN da = "after"
  ELSE IF l.al = "center" THEN da = "center"
  ELSE IF WritingModeOf(set) = "tbrl" /\ l.kind = "pct" THEN da \in {"before", "after"}
  ELSE IF l.al = "end" THEN da = "after"
  ELSE da = "before"

Tol == 1                                          \* hundredth of a percent: observed lengths are rounded floats
Inside(r) == /\ r.pct = 1
             /\ r.ox >= 0 /\ r.oy >= 0 /\ r.ew >= 0 /\ r.eh >= 0
             /\ r.ox + r.ew <= 10000 + Tol /\ r.oy + r.eh <= 10000 + Tol

(* Reference placement (sec. 7.2 "apply WebVTT cue settings", cues without a region): shows that the relation above
   is satisfiable by the Recommendation's own placement; Rows is the number of lines of the video (any).  *)
Min2(a, b) == IF a < b THEN a ELSE b
Max2(a, b) == IF a > b THEN a ELSE b
RegionOf(set, Rows) ==
  LET wm    == WritingModeOf(set)
      ta    == TextAlignOf(set)
      l     == Setting(set, "line")
      p     == Setting(set, "position")
      sz    == Setting(set, "size")
      pal   == IF p.al # "" THEN p.al ELSE IF ta = "start" THEN "line-left" ELSE IF ta = "end" THEN "line-right" ELSE "center"
      pos   == IF p.name # "" THEN p.num ELSE IF ta = "start" THEN 0 ELSE IF ta = "end" THEN 10000 ELSE 5000
      maxsz == IF pal = "line-left" THEN 10000 - pos ELSE IF pal = "line-right" THEN pos ELSE 2 * Min2(pos, 10000 - pos)
      size  == Min2(IF sz.name # "" THEN sz.num ELSE 10000, maxsz)
      istart == IF pal = "line-left" THEN pos ELSE IF pal = "line-right" THEN pos - size ELSE pos - size \div 2
      L     == IF l.kind = "pct" THEN l.num
               ELSE Max2(0, Min2(10000, IF l.num >= 0 THEN (l.num * 10000) \div Rows ELSE 10000 + (l.num * 10000) \div Rows))
      bext  == IF l.name = "" THEN 10000 ELSE IF l.al = "center" THEN 2 * Min2(L, 10000 - L) ELSE IF l.al = "end" THEN L ELSE 10000 - L
      bstart == IF l.name = "" THEN 0 ELSE IF l.al = "center" THEN L - bext \div 2 ELSE IF l.al = "end" THEN 0 ELSE L
      da    == IF l.name = "" THEN "after" ELSE IF l.al = "center" THEN "center" ELSE IF l.al = "end" THEN "after" ELSE "before"
  IN  [ox |-> IF wm = "lrtb" THEN istart ELSE bstart, oy |-> IF wm = "lrtb" THEN bstart ELSE istart,
       ew |-> IF wm = "lrtb" THEN size ELSE bext, eh |-> IF wm = "lrtb" THEN bext ELSE size,
       pct |-> 1, da |-> da, ta |-> ta, wm |-> wm]

RegionOk(set, r) == /\ Inside(r)
                    /\ r.wm = WritingModeOf(set)
                    /\ r.ta = TextAlignOf(set)
                    /\ DisplayAlignOk(set, r.da)
=============================================================================
