----------------------------- MODULE VttRegionMC -----------------------------
(* Design check of the cue-setting clause of C11: over all combinations of representative setting values the
   placement of the Recommendation (RegionOf) satisfies what the property demands of a region (RegionOk), for any
   number of rows; every combination is printed and replayed into ttconv.vtt.reader by the harness.           *)
EXTENDS VttReader

CONSTANTS Lines, Positions, Sizes, Verticals, Aligns,     \* sets of lexed settings; name = "" means: setting absent
          RowCounts

VARIABLES set, done
vars == <<set, done>>

Build(l, p, s, v, a) == SelectSeq(<<v, l, p, s, a>>, LAMBDA x : x.name # "")

Init == /\ \E l \in Lines, p \in Positions, s \in Sizes, v \in Verticals, a \in Aligns : set = Build(l, p, s, v, a)
        /\ done = FALSE
Next == ~done /\ done' = TRUE /\ UNCHANGED set
Spec == Init /\ [][Next]_vars

Inv_ReferenceSatisfiesProperty == \A rows \in RowCounts : RegionOk(set, RegionOf(set, rows))
Inv_ReferenceInside == \A rows \in RowCounts :
                         LET r == RegionOf(set, rows) IN
                         /\ r.ox \in 0..10000 /\ r.oy \in 0..10000 /\ r.ew \in 0..10000 /\ r.eh \in 0..10000
                         /\ r.ox + r.ew <= 10000 /\ r.oy + r.eh <= 10000
\* the size setting bounds the extent along the line, the position setting anchors it
Inv_SizeBounds == \A rows \in RowCounts :
                    LET r  == RegionOf(set, rows)
                        sz == Setting(set, "size")
                        inl == IF r.wm = "lrtb" THEN r.ew ELSE r.eh
                    IN  sz.name # "" => inl <= sz.num
=============================================================================
