------------------------------ MODULE VttTextMC ------------------------------
(* Generating machine for WebVTT cue text (C11): a cue text is written fragment by fragment (start tags, end tags,
   text runs with character references, timestamp tags).  Two independent readings of the text are kept side by side:
     * fragment level: every fragment updates the stack of open nodes directly (variables fstack, fitems, fts);
     * character level: the text written so far (src) is run through the transcribed tokenizer and tree builder
       of VttReader.tla (CueItems).
   TLC checks on every reachable state that the two agree, and every state is a cue text that the harness replays
   into ttconv.vtt.reader.                                                                                   *)
EXTENDS VttReader

CONSTANTS Frags,        \* sequence of fragments [f, name, cls, ann, src, data, t]
          MaxFrags,
          WellNested    \* TRUE: an end tag is only written when it matches the current node

VARIABLES src,      \* the cue text so far (code points)
          fstack, fitems, fts, nrub, ignored,
          hist,     \* indices of the fragments written
          done
vars == <<src, fstack, fitems, fts, nrub, ignored, hist, done>>

Begin == Time(0, 0, 10, 0)

Init == /\ src = <<>> /\ fstack = <<>> /\ fitems = <<>> /\ fts = -1 /\ nrub = 0 /\ ignored = 0
        /\ hist = <<>> /\ done = FALSE

Top == IF fstack = <<>> THEN <<>> ELSE fstack[Len(fstack)].name

Write(k) ==
  LET fr == Frags[k] IN
  /\ ~done /\ Len(hist) < MaxFrags
  /\ (fr.f = "text" /\ hist # <<>>) => Frags[hist[Len(hist)]].f # "text"
  /\ (WellNested /\ fr.f = "close") => (Top = fr.name \/ (fr.name = N_ruby /\ Top = N_rt))
  /\ (WellNested /\ fr.f = "open" /\ fr.name = N_rt) => Top = N_ruby
  /\ (fr.f = "open" /\ fr.name = N_ruby) => ~Has(fstack, N_ruby)                 \* ruby does not nest in the grammar
  /\ (Has(fstack, N_ruby) /\ fr.f = "open") => fr.name = N_rt                     \* (kept simple: only rt inside ruby)
  /\ src' = src \o fr.src
  /\ hist' = Append(hist, k)
  /\ CASE fr.f = "open" ->
            IF fr.name = N_ruby
            THEN /\ fstack' = Append(fstack, Node(fr.name, fr.cls, fr.ann, nrub + 1)) /\ nrub' = nrub + 1
                 /\ UNCHANGED <<fitems, fts, ignored>>
            ELSE IF fr.name \in SpanNames \/ (fr.name = N_rt /\ Top = N_ruby)
            THEN fstack' = Append(fstack, Node(fr.name, fr.cls, fr.ann, 0)) /\ UNCHANGED <<fitems, fts, nrub, ignored>>
            ELSE ignored' = ignored + 1 /\ UNCHANGED <<fstack, fitems, fts, nrub>>
       [] fr.f = "close" ->
            IF Top = fr.name THEN fstack' = SubSeq(fstack, 1, Len(fstack) - 1) /\ UNCHANGED <<fitems, fts, nrub, ignored>>
            ELSE IF fr.name = N_ruby /\ Top = N_rt
            THEN fstack' = SubSeq(fstack, 1, Len(fstack) - 2) /\ UNCHANGED <<fitems, fts, nrub, ignored>>
            ELSE ignored' = ignored + 1 /\ UNCHANGED <<fstack, fitems, fts, nrub>>
       [] fr.f = "text" ->
            /\ fitems' = fitems \o [j \in 1..Len(fr.data) |-> ItemOrBr(fr.data[j], fstack, fts)]
            /\ UNCHANGED <<fstack, fts, nrub, ignored>>
       [] fr.f = "ts" -> fts' = fr.t /\ UNCHANGED <<fstack, fitems, nrub, ignored>>
  /\ UNCHANGED done

Finish == /\ ~done /\ hist # <<>> /\ done' = TRUE
          /\ UNCHANGED <<src, fstack, fitems, fts, nrub, ignored, hist>>

Next == Finish \/ \E k \in 1..Len(Frags) : Write(k)
Spec == Init /\ [][Next]_vars

\* the character-level tokenizer + tree builder and the fragment-level reading agree
Inv_TokenizerAgrees == CueItems(src, Begin) = RubyOrderFrom(fitems, 1)

\* every character written in a text fragment comes out, decoded, exactly once
NChars == LET F[k \in 0..Len(hist)] == IF k = 0 THEN 0
                                       ELSE F[k - 1] + (IF Frags[hist[k]].f = "text" THEN Len(Frags[hist[k]].data) ELSE 0)
          IN F[Len(hist)]
Inv_AllTextKept == Len(fitems) = NChars

\* tag stack balanced at the end of a cue text whose tags are balanced and well nested
NOf(f) == Cardinality({k \in 1..Len(hist) : Frags[hist[k]].f = f})
Inv_BalancedStack == (ignored = 0 /\ NOf("open") = NOf("close")) => fstack = <<>>

\* every character carries exactly the styles of the nodes open when it was written (an rt node implies its ruby node)
Inv_RoleConsistent == \A j \in 1..Len(fitems) : /\ (fitems[j].role = "") = (fitems[j].rid = 0)
                                                /\ fitems[j].rb \in {-1} \cup {Frags[k].t : k \in 1..Len(Frags)}
=============================================================================
